// place in: internal/
package internal

import (
	"testing"
	"time"
)

// F20 (C15, GetWithSecodary/post.promotable): expire == 0 means "no deadline" everywhere in the store
// (getFromShard, Range, sinkWrite, Recover all test `expire != 0` first).
// GetWithSecodary tests the secondary tier's answer with a bare `expire <= now`: a TTL-less entry
// (expire == 0) that was evicted to the secondary tier is taken for expired, deleted from the tier and
// reported as a miss. Entries written with Set(key, value, cost) (no TTL) never survive an eviction.
func TestFinding_F20_TTLlessSecondaryEntryDeleted(t *testing.T) {
	secondary := NewSimpleMapSecondary[string, int]()
	s := NewStore(&StoreOptions[string, int]{MaxSize: 1, SecondaryCache: secondary, Workers: 1, Probability: 1})
	defer s.Close()

	s.Set("k", 100, 1, 0) // no TTL
	f20wait(t, s)
	s.Set("other", 1, 1, 0) // MaxSize 1: k is evicted to the secondary tier
	f20wait(t, s)
	limit := time.Now().Add(3 * time.Second)
	for {
		v, _, expire, ok, _ := secondary.Get("k")
		_, index := s.index("k")
		tk := s.shards[index].mu.RLock()
		_, inMap := s.shards[index].hashmap["k"]
		s.shards[index].mu.RUnlock(tk)
		if ok && !inMap {
			if v != 100 || expire != 0 {
				t.Fatalf("test set-up: secondary holds (%d, expire %d)", v, expire)
			}
			break
		}
		if time.Now().After(limit) {
			t.Fatalf("test set-up: k did not move to the secondary tier")
		}
		time.Sleep(time.Millisecond)
	}

	v, ok, err := s.GetWithSecodary("k")
	if err != nil {
		t.Fatal(err)
	}
	_, _, _, still, _ := secondary.Get("k")
	if !ok || v != 100 {
		t.Errorf("k=100 without TTL was evicted to the secondary tier; Get(k) = (%d, %v), want (100, true); still in the tier afterwards: %v - expire == 0 is treated as 'expired' and the entry is deleted",
			v, ok, still)
	}
}

func f20wait(t *testing.T, s *Store[string, int]) {
	done := make(chan struct{})
	go func() { s.Wait(); close(done) }()
	select {
	case <-done:
	case <-time.After(5 * time.Second):
		t.Fatalf("Wait did not return")
	}
}
