// place in: internal/
package internal

import (
	"testing"
	"time"
)

// F7 (C20, drainWrite/post.wakeups): every Wait() must return once the write queue has been drained.
// drainWrite folds all WAIT markers of one batch into a single boolean and sends exactly ONE wake-up
// on waitChan per batch. Two concurrent Wait() calls whose markers land in the same batch therefore
// get one wake-up between them: the second caller blocks forever.
//
// Schedule: policyMu is held, a dummy Set parks the maintenance goroutine on policyMu with a batch of
// its own; then two Wait() calls enqueue their markers (both sit in writeChan); policyMu is released;
// the maintenance goroutine collects both markers in its next batch.
func TestFinding_F07_TwoMarkersOneWakeup(t *testing.T) {
	s := NewStore(&StoreOptions[string, string]{MaxSize: 100})
	defer s.Close()

	s.policyMu.Lock()
	s.Set("dummy", "x", 1, 0)
	// maintenance picks the dummy event up and parks on policyMu
	deadline := time.Now().Add(3 * time.Second)
	for len(s.writeChan) != 0 {
		if time.Now().After(deadline) {
			s.policyMu.Unlock()
			t.Fatalf("test set-up: maintenance goroutine did not pick up the dummy event")
		}
		time.Sleep(time.Millisecond)
	}
	time.Sleep(20 * time.Millisecond)

	done := make(chan string, 2)
	go func() { s.Wait(); done <- "A" }()
	go func() { s.Wait(); done <- "B" }()
	for len(s.writeChan) != 2 {
		if time.Now().After(deadline) {
			s.policyMu.Unlock()
			t.Fatalf("test set-up: the two markers were not enqueued (len=%d)", len(s.writeChan))
		}
		time.Sleep(time.Millisecond)
	}
	time.Sleep(20 * time.Millisecond) // both callers are now blocked on waitChan
	s.policyMu.Unlock()

	returned := []string{}
	timeout := time.After(3 * time.Second)
	for len(returned) < 2 {
		select {
		case who := <-done:
			returned = append(returned, who)
		case <-timeout:
			t.Errorf("2 concurrent Wait() calls, write queue empty (len(writeChan)=%d), but only %d returned (%v) within 3s: "+
				"two markers in one batch produce one wake-up, the other Wait() never returns",
				len(s.writeChan), len(returned), returned)
			// release the stuck caller so that the test leaves nothing behind
			select {
			case s.waitChan <- true:
			case <-time.After(time.Second):
			}
			return
		}
	}
}
