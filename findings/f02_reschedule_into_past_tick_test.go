// place in: internal/
package internal

import (
	"testing"
	"time"
)

// F2 (C04, sinkWrite(UPDATE)/pre schedule.not_past): an expired entry is reclaimed by the timer wheel
// about one tick (2^30 ns ~ 1.07 s) after its deadline.
// sinkWrite(NEW) tests `expire <= now` before scheduling; sinkWrite(UPDATE) re-schedules blindly.
// When a TTL update is processed after its new deadline has passed *and* after the wheel has already
// moved past that deadline's tick, findIndex files the entry under that past tick's slot on level 0.
// The wheel only visits slots from its current tick onwards, so the slot is reached again after a
// full turn of level 0: 64 ticks ~ 69 s. Until then the dead entry occupies memory and policy capacity.
//
// Schedule: policyMu is held while the TTL is shortened to 5 ms (event queued), 1.2 s pass and the
// ticker's advance runs (performed by the test under policyMu, exactly what the ticker does); then
// policyMu is released and the UPDATE event is processed. Afterwards time is advanced in 1 s steps
// with one wheel advance per step until the entry is reclaimed.
func TestFinding_F02_RescheduleIntoPastTick(t *testing.T) {
	expiredAt := int64(-1)
	var s *Store[string, int]
	s = NewStore(&StoreOptions[string, int]{MaxSize: 100, Listener: func(k string, v int, r RemoveReason) {
		if k == "k" && r == EXPIRED {
			expiredAt = s.timerwheel.clock.NowNano()
		}
	}})
	defer s.Close()
	pass := func(d time.Duration) { s.timerwheel.clock.Start = s.timerwheel.clock.Start.Add(-d) }

	s.Set("k", 1, 1, time.Hour)
	f02wait(t, s)
	_, index := s.index("k")
	entry := s.shards[index].hashmap["k"]

	s.policyMu.Lock()
	s.Set("k", 2, 1, 5*time.Millisecond) // UPDATE event with reschedule, queued behind policyMu
	deadline := entry.expire.Load()
	pass(1200 * time.Millisecond)
	s.timerwheel.clock.RefreshNowCache()
	s.timerwheel.advance(0, s.removeEntry) // the ticker's turn: the wheel moves past the deadline's tick
	s.policyMu.Unlock()
	f02wait(t, s) // the UPDATE event is processed now, 1.2 s after the deadline

	s.policyMu.Lock()
	for step := 0; step < 200 && expiredAt < 0; step++ {
		pass(time.Second)
		s.timerwheel.clock.RefreshNowCache()
		s.timerwheel.advance(0, s.removeEntry)
	}
	s.policyMu.Unlock()

	if expiredAt < 0 {
		t.Fatalf("entry with a 5 ms TTL not reclaimed within 200 s")
	}
	if late := expiredAt - deadline; late > int64(4*time.Second) {
		t.Errorf("entry whose TTL was updated to 5 ms was reclaimed %.1f s after its deadline (want <= ~2 ticks after the update was processed, i.e. < 4 s): re-scheduled into a wheel slot of a past tick",
			float64(late)/1e9)
	}
}

func f02wait(t *testing.T, s *Store[string, int]) {
	done := make(chan struct{})
	go func() { s.Wait(); close(done) }()
	select {
	case <-done:
	case <-time.After(5 * time.Second):
		t.Fatalf("Wait did not return")
	}
}
