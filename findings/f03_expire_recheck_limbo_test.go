// place in: internal/
package internal

import (
	"testing"
	"time"
)

// F3 (C02/C04, removeEntry/monitor.keep.case_expired_recheck): an entry that is resident and tracked
// by the policy must keep being maintained: cost updates are applied and a TTL is enforced by the wheel.
// TimerWheel.expire tests entry.expire <= now, unlinks the entry from the wheel and calls
// removeEntry(EXPIRED). removeEntry first sets the "removed" flag and only then re-checks the deadline;
// if a concurrent Set has extended the TTL in between (Set needs the shard lock only), removeEntry
// returns early and leaves the entry: resident in the map, linked in the policy list, flagged
// removed, not on the wheel. Every later UPDATE event for it is dropped by sinkWrite ("ignore removed
// entries"), including the re-schedule of this very Set: the entry never gets back on the wheel and
// cost changes are lost.
//
// Schedule: the wheel is advanced under policyMu (as the ticker does) with a remove callback that
// performs the concurrent Set right before delegating to removeEntry - exactly the point between the
// wheel's test and removeEntry's re-check.
func TestFinding_F03_ExpireRecheckLimbo(t *testing.T) {
	s := NewStore(&StoreOptions[string, string]{MaxSize: 100})
	defer s.Close()

	s.Set("k", "v1", 1, 2*time.Second)
	s.Wait()
	_, index := s.index("k")
	entry := s.shards[index].hashmap["k"]

	s.policyMu.Lock()
	s.timerwheel.clock.Start = s.timerwheel.clock.Start.Add(-3 * time.Second) // 3 s pass: the TTL is over
	raced := 0
	s.timerwheel.advance(0, func(e *Entry[string, string], reason RemoveReason) {
		if e == entry {
			raced++
			s.Set("k", "v2", 1, 10*time.Second) // concurrent writer extends the TTL
		}
		s.removeEntry(e, reason)
	})
	s.policyMu.Unlock()
	if raced != 1 {
		t.Fatalf("test set-up: the wheel did not try to expire the entry (raced=%d)", raced)
	}
	f03wait(t, s) // the UPDATE event (with reschedule) of the racing Set is processed here

	if v, ok := s.Get("k"); !ok || v != "v2" {
		t.Fatalf("test set-up: entry should be resident and readable, got (%q,%v)", v, ok)
	}
	s.policyMu.Lock()
	inPolicy := entry.meta.prev != nil
	onWheel := entry.meta.wheelPrev != nil
	removedFlag := entry.flag.IsRemoved()
	s.policyMu.Unlock()
	if !inPolicy {
		t.Fatalf("test set-up: entry expected to be still linked in the policy")
	}
	if removedFlag || !onWheel {
		t.Errorf("entry k is resident (Get hit), linked in the policy, has a deadline 10s ahead, but: removed flag=%v, scheduled on wheel=%v (want false/true)",
			removedFlag, onWheel)
	}

	// a cost update 1 -> 5 is ignored
	s.Set("k", "v3", 5, 10*time.Second)
	f03wait(t, s)
	s.policyMu.Lock()
	pw := entry.policyWeight
	ws := s.policy.weightedSize
	s.policyMu.Unlock()
	if pw != 5 || ws != 5 {
		t.Errorf("Set(k, cost 5) applied to the map (weight=%d) but ignored by the policy: policyWeight=%d weightedSize=%d, want 5/5",
			entry.weight.Load(), pw, ws)
	}

	// the wheel never expires it: one hour later the entry is still resident and tracked
	s.policyMu.Lock()
	s.timerwheel.clock.Start = s.timerwheel.clock.Start.Add(-time.Hour)
	s.timerwheel.advance(0, s.removeEntry)
	s.timerwheel.advance(0, s.removeEntry)
	s.policyMu.Unlock()
	if n, es := s.Len(), s.EstimatedSize(); n != 0 || es != 0 {
		t.Errorf("one hour after the deadline and after two wheel advances the entry is still resident: Len()=%d EstimatedSize()=%d, want 0/0 (it is never expired)", n, es)
	}
}

func f03wait(t *testing.T, s *Store[string, string]) {
	done := make(chan struct{})
	go func() { s.Wait(); close(done) }()
	select {
	case <-done:
	case <-time.After(5 * time.Second):
		t.Fatalf("Wait did not return")
	}
}
