// place in: internal/
package internal

import (
	"context"
	"sort"
	"sync"
	"testing"
	"time"
)

// F10 (C06/C13, LoadingStore.Get/post.cost_admission): an item whose cost exceeds MaxSize must not be
// admitted (Set refuses it: "Return false when cost > max size") and in particular must not push
// resident entries out.
// LoadingStore.Get has no such test: the loaded value with cost 1000 is stored in a MaxSize-10 cache
// and handed to the policy, which evicts a resident entry to "make room" before it throws the
// oversized entry out again.
func TestFinding_F10_LoaderCostAdmission(t *testing.T) {
	var mu sync.Mutex
	evicted := []int{}
	store := NewStore(&StoreOptions[int, int]{MaxSize: 10, Listener: func(k int, v int, r RemoveReason) {
		mu.Lock()
		evicted = append(evicted, k)
		mu.Unlock()
	}})
	s := NewLoadingStore(store)
	s.Loader(func(ctx context.Context, key int) (Loaded[int], error) {
		return Loaded[int]{Value: key, Cost: 1000}, nil
	})
	defer s.Close()

	for i := 0; i < 10; i++ {
		s.Set(i, i, 1, 0)
	}
	f10wait(t, store)
	if s.Set(100, 100, 1000, 0) {
		t.Fatalf("test set-up: Set with cost 1000 should be refused")
	}
	if n := s.Len(); n != 10 {
		t.Fatalf("test set-up: %d resident, want 10", n)
	}

	v, err := s.Get(context.Background(), 100)
	if err != nil || v != 100 {
		t.Fatalf("loading Get: %v %v", v, err)
	}
	_, stored := s.shards[func() int { _, i := s.index(100); return i }()].hashmap[100]
	f10wait(t, store)

	missing := []int{}
	for i := 0; i < 10; i++ {
		if _, ok := store.Get(i); !ok {
			missing = append(missing, i)
		}
	}
	mu.Lock()
	ev := append([]int{}, evicted...)
	mu.Unlock()
	sort.Ints(missing)
	if stored {
		t.Errorf("loader result with cost 1000 was stored in a MaxSize-10 cache (Set with the same cost is refused)")
	}
	if len(missing) > 0 {
		t.Errorf("loading an item of cost 1000 into a MaxSize-10 cache evicted resident keys %v (eviction order %v); resident now %d of 10",
			missing, ev, 10-len(missing))
	}
}

func f10wait(t *testing.T, s *Store[int, int]) {
	done := make(chan struct{})
	go func() { s.Wait(); close(done) }()
	select {
	case <-done:
	case <-time.After(5 * time.Second):
		t.Fatalf("Wait did not return")
	}
}
