// place in: internal/
package internal

import "testing"

// F1 (C04): an entry whose deadline lies on a coarse wheel level must be reclaimed within about one
// finest tick (2^30 ns) of its deadline. On the original code it is reclaimed one coarse tick late.
func TestFinding_F1_WheelLateness(t *testing.T) {
	for _, ttl := range []int64{69e9, 4500e9, 150000e9} {
		tw := NewTimerWheel[string, string](1000)
		tw.nanos = 0
		e := NewEntry("k", "v", 1, ttl)
		tw.schedule(e)
		var removedAt int64 = -1
		step := int64(1) << 30
		for now := step; now < 3*ttl && removedAt < 0; now += step {
			tw.advance(now, func(entry *Entry[string, string], reason RemoveReason) { removedAt = now })
		}
		if removedAt < 0 {
			t.Fatalf("ttl %ds: never reclaimed within 3x ttl", ttl/1e9)
		}
		late := removedAt - ttl
		t.Logf("ttl %ds: reclaimed %.2fs after the deadline", ttl/1e9, float64(late)/1e9)
		if late > 2*step {
			t.Errorf("ttl %ds: reclaimed %.1fs after its deadline (more than two finest ticks)", ttl/1e9, float64(late)/1e9)
		}
		if late < 0 {
			t.Errorf("ttl %ds: reclaimed before its deadline", ttl/1e9)
		}
	}
}
