// place in: internal/
package internal

import (
	"bytes"
	"testing"
	"time"
)

// F22 (C11, Recover/post.capacity): after Recover the cache respects its MaxSize
// (EstimatedSize() <= MaxSize, policy weightedSize <= capacity), whatever the snapshot came from.
// Recover tests "is there room left" *before* adding an entry and compares the list's summed cost
// with the capacity without taking the entry's own cost into account (`window.Len() < capacity`,
// `protected.len < capacity`, `protected.len+probation.len < maxsize`). With costs > 1 every list can
// overshoot by almost one entry; nothing evicts afterwards until the next insertion.
func TestFinding_F22_RecoverExceedsCapacity(t *testing.T) {
	src := NewStore(&StoreOptions[int, int]{MaxSize: 20})
	defer src.Close()
	for i := 0; i < 4; i++ {
		if !src.Set(i, i, 5, 0) {
			t.Fatalf("Set failed")
		}
		f22wait(t, src)
	}
	if n, es := src.Len(), src.EstimatedSize(); n != 4 || es != 20 {
		t.Fatalf("test set-up: source holds %d entries, size %d", n, es)
	}
	buf := &bytes.Buffer{}
	if err := src.Persist(1, buf); err != nil {
		t.Fatal(err)
	}

	const maxSize = 12
	dst := NewStore(&StoreOptions[int, int]{MaxSize: maxSize})
	defer dst.Close()
	if err := dst.Recover(1, bytes.NewReader(buf.Bytes())); err != nil {
		t.Fatal(err)
	}
	dst.policyMu.Lock()
	weighted := dst.policy.weightedSize
	dst.policyMu.Unlock()
	if es := dst.EstimatedSize(); es > maxSize || weighted > maxSize {
		t.Errorf("cost-5 entries saved from MaxSize 20 and restored into MaxSize %d: EstimatedSize() = %d, policy weightedSize = %d, %d entries resident - capacity exceeded after Recover",
			maxSize, es, weighted, dst.Len())
	}
}

func f22wait(t *testing.T, s *Store[int, int]) {
	done := make(chan struct{})
	go func() { s.Wait(); close(done) }()
	select {
	case <-done:
	case <-time.After(5 * time.Second):
		t.Fatalf("Wait did not return")
	}
}
