// place in: internal/
package internal

import (
	"testing"
	"time"
)

// F8 (C20, Wait/post.own_marker): "Wait blocks until the write channel is drained": when B's Wait()
// returns, every event B queued before it (here: B's Set) has been applied to the policy.
// All callers share one unbuffered waitChan and wake-ups carry no identity. The maintenance goroutine
// blocks in drainWrite on `waitChan <- true` until *somebody* receives. If caller A has queued its
// marker but has not yet reached the receive (A is descheduled between the two statements of Wait),
// the wake-up that belongs to A's marker is taken by the next caller B, whose own Set and marker are
// still sitting in the queue.
//
// Schedule: A executes the first statement of Wait() (the marker send; white-box, this is the one
// place where the test inlines library code to pin "A is descheduled here"); the maintenance goroutine
// processes that batch and blocks on waitChan. B then runs the real API: Delete("x"), Set("b"),
// Wait(). A gate in the removal listener (called for Delete("x"), which is queued before B's Set)
// keeps the maintenance goroutine from racing ahead after B has been released, so the state B observes
// is stable: B's Wait() has returned and B's Set has not been applied.
func TestFinding_F08_WaitStealsWakeup(t *testing.T) {
	gate := make(chan struct{})
	s := NewStore(&StoreOptions[string, int]{MaxSize: 100, Listener: func(k string, v int, r RemoveReason) {
		if k == "x" {
			<-gate
		}
	}})
	defer s.Close()
	s.Set("x", 0, 1, 0)
	f08wait(t, s)

	// caller A: first half of Wait()
	s.writeChan <- WriteBufItem[string, int]{code: WAIT}
	limit := time.Now().Add(3 * time.Second)
	for len(s.writeChan) != 0 {
		if time.Now().After(limit) {
			t.Fatalf("test set-up: marker of A not picked up")
		}
		time.Sleep(time.Millisecond)
	}
	time.Sleep(30 * time.Millisecond) // maintenance now blocks on waitChan <- true (A's wake-up)

	// caller B: public API only
	s.Delete("x")
	s.Set("b", 1, 1, 0)
	bDone := make(chan struct{})
	go func() { s.Wait(); close(bDone) }()
	select {
	case <-bDone:
	case <-time.After(3 * time.Second):
		close(gate)
		t.Fatalf("B's Wait did not return")
	}
	time.Sleep(50 * time.Millisecond) // maintenance is parked in the gated listener (or still before B's batch)

	// B's view right after its Wait() returned (no lock: the maintenance goroutine is parked)
	_, index := s.index("b")
	tk := s.shards[index].mu.RLock()
	eb := s.shards[index].hashmap["b"]
	s.shards[index].mu.RUnlock(tk)
	applied := eb != nil && eb.meta.prev != nil
	size := s.policy.window.Len() + s.policy.slru.protected.Len() + s.policy.slru.probation.Len()
	queued := len(s.writeChan) + len(s.writeBuffer)

	if !applied {
		t.Errorf("B: Set(b); Wait() returned, but B's Set has not been applied: entry b not in policy, EstimatedSize=%d, B's Set and marker still queued (%d events pending) - B was released by A's wake-up",
			size, queued)
	}

	// clean up: open the gate, A performs the second half of its Wait()
	close(gate)
	select {
	case <-s.waitChan:
	case <-time.After(3 * time.Second):
		t.Errorf("clean-up: no wake-up left for A")
	}
}

func f08wait(t *testing.T, s *Store[string, int]) {
	done := make(chan struct{})
	go func() { s.Wait(); close(done) }()
	select {
	case <-done:
	case <-time.After(5 * time.Second):
		t.Fatalf("Wait did not return")
	}
}
