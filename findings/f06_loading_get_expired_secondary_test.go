// place in: internal/
package internal

import (
	"context"
	"testing"
	"time"
)

// F6 (C03/C14, LoadingStore.Get/post.secondary_unexpired): a Get never returns a value whose deadline
// has passed; a loading Get loads a fresh value instead.
// GetWithSecodary checks `expire <= now` on what the secondary tier returns; the hybrid *loading* Get
// does not: whatever the secondary tier holds is returned (and re-inserted into memory with its dead
// deadline), however long ago it expired. The loader is never asked.
func TestFinding_F06_LoadingGetExpiredSecondary(t *testing.T) {
	secondary := NewSimpleMapSecondary[string, int]()
	store := NewStore(&StoreOptions[string, int]{MaxSize: 100, SecondaryCache: secondary, Workers: 1, Probability: 1})
	s := NewLoadingStore(store)
	loads := 0
	s.Loader(func(ctx context.Context, key string) (Loaded[int], error) {
		loads++
		return Loaded[int]{Value: 200, Cost: 1}, nil
	})
	defer s.Close()

	// the secondary tier holds value 100 with a deadline one minute ahead ...
	deadline := s.timerwheel.clock.ExpireNano(time.Minute)
	if err := secondary.Set("k", 100, 1, deadline); err != nil {
		t.Fatal(err)
	}
	// ... and one hour passes
	s.policyMu.Lock()
	s.timerwheel.clock.Start = s.timerwheel.clock.Start.Add(-time.Hour)
	s.policyMu.Unlock()
	now := s.timerwheel.clock.NowNano()

	v, err := s.Get(context.Background(), "k")
	if err != nil {
		t.Fatal(err)
	}
	if v != 200 || loads != 1 {
		t.Errorf("hybrid loading Get(k) = %d with %d loader calls: returned the secondary tier's value that expired %.0f s ago instead of loading (want 200, 1 call)",
			v, loads, float64(now-deadline)/1e9)
	}
}
