// place in: internal/
package internal

import "testing"

// F13 (C08, Buffer.Free/monitor.keep: "token free => tail-head < 16"): whenever no drainer holds the
// stripe's batch token, the stripe has room, so that some later Add fills it and hands out the batch.
// Add hands the batch to the producer that writes the 16th element. While that batch is being drained
// (token taken, Free not yet called) producers keep adding; the producer that writes the next 16th
// element fails to take the token and returns nil *without draining*. When the first drainer then
// calls Free, the stripe is full (tail-head == 16) and the token is free: every later Add sees
// "full buffer" and returns nil, nobody ever drains it again. All reads hashed to this stripe are
// lost to the policy for the rest of the cache's life.
func TestFinding_F13_ReadBufferWedged(t *testing.T) {
	b := NewBuffer[int, int]()
	e := NewEntry(1, 1, 1, 0)
	item := ReadBufItem[int, int]{entry: e, hash: 1}

	var first *PolicyBuffers[int, int]
	for i := 0; i < capacity; i++ {
		if pb := b.Add(item); pb != nil {
			first = pb
		}
	}
	if first == nil || len(first.Returned) != capacity {
		t.Fatalf("test set-up: the 16th read should hand out a batch of 16")
	}
	// the batch is being drained (Store.drainRead waits for policyMu) - 16 more reads arrive
	for i := 0; i < capacity; i++ {
		if pb := b.Add(item); pb != nil {
			t.Fatalf("test set-up: no second batch expected while the first is held")
		}
	}
	b.Free() // the drainer is done

	head, tail := b.head.Load(), b.tail.Load()
	delivered := 0
	for i := 0; i < 1000; i++ {
		if pb := b.Add(item); pb != nil {
			delivered += len(pb.Returned)
			b.Free()
		}
	}
	if delivered == 0 {
		t.Errorf("stripe wedged: after Free the batch token is free but tail-head = %d (full); 1000 further reads delivered %d items to the policy (head=%d tail=%d never move again)",
			tail-head, delivered, b.head.Load(), b.tail.Load())
	}
}
