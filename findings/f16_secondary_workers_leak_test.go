// place in: .
package theine_test

import (
	"context"
	"runtime"
	"strings"
	"testing"
	"time"

	"github.com/Yiling-J/theine-go"
	"github.com/Yiling-J/theine-go/internal"
)

// F16 (C10, processSecondary/goroutine.exit, HybridCache.Close/post): "Close closes all goroutines
// created by cache".
// The secondary-tier workers loop over `range secondaryCacheBuf`; that channel is never closed and the
// workers do not watch the store's context, so Store.Close leaves all of them running.
// HybridCache.Close does not even call Store.Close: its body is empty, so the maintenance goroutine and
// the ticker goroutine stay alive as well.
func TestFinding_F16_SecondaryWorkersLeak(t *testing.T) {
	count := func(fn string) int {
		buf := make([]byte, 1<<22)
		n := runtime.Stack(buf, true)
		c := 0
		for _, g := range strings.Split(string(buf[:n]), "\n\n") {
			if strings.Contains(g, fn) {
				c++
			}
		}
		return c
	}
	settle := func(fn string, want int) int {
		limit := time.Now().Add(2 * time.Second)
		got := count(fn)
		for got != want && time.Now().Before(limit) {
			time.Sleep(20 * time.Millisecond)
			got = count(fn)
		}
		return got
	}
	const worker = "internal.(*Store[...]).processSecondary"
	const maint = "internal.(*Store[...]).maintenance"

	// (a) HybridLoadingCache.Close -> Store.Close: the workers survive
	w0, m0 := count(worker), count(maint)
	hl, err := theine.NewBuilder[int, int](100).Hybrid(internal.NewSimpleMapSecondary[int, int]()).Workers(4).
		Loading(func(ctx context.Context, key int) (theine.Loaded[int], error) {
			return theine.Loaded[int]{Value: key, Cost: 1}, nil
		}).Build()
	if err != nil {
		t.Fatal(err)
	}
	if got := settle(worker, w0+4); got != w0+4 {
		t.Fatalf("test set-up: %d workers started, want 4", got-w0)
	}
	hl.Close()
	if got := settle(worker, w0); got != w0 {
		t.Errorf("HybridLoadingCache.Close(): %d of 4 secondary workers still alive after Close (parked on `range secondaryCacheBuf`, which is never closed)", got-w0)
	}
	if got := settle(maint, m0); got != m0 {
		t.Errorf("HybridLoadingCache.Close(): %d maintenance goroutines still alive", got-m0)
	}

	// (b) HybridCache.Close: nothing is stopped at all
	w1, m1 := count(worker), count(maint)
	h, err := theine.NewBuilder[int, int](100).Hybrid(internal.NewSimpleMapSecondary[int, int]()).Workers(4).Build()
	if err != nil {
		t.Fatal(err)
	}
	settle(worker, w1+4)
	h.Close()
	gw, gm := settle(worker, w1)-w1, settle(maint, m1)-m1
	if gw != 0 || gm != 0 {
		t.Errorf("HybridCache.Close(): %d of 4 secondary workers and %d maintenance/ticker goroutines still alive after Close (Close has an empty body)", gw, gm)
	}
	if ok := h.Set(1, 1, 1); ok {
		if v, found, _ := h.Get(1); found {
			t.Errorf("HybridCache.Close(): cache still fully operational after Close: Set(1)=true, Get(1)=%d", v)
		}
	}
}
