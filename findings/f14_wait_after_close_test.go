// place in: internal/
package internal

import (
	"testing"
	"time"
)

// F14 (C10, Wait/blocking.send, Wait/blocking.recv): no public call may block forever; after Close,
// "Get will always return (nil, false), and Set will have no effect" - Wait has to return as well.
// Close cancels the context, the maintenance goroutine (the only receiver of writeChan and the only
// sender on waitChan) exits. Wait() has no closed test: it puts its marker into the buffered writeChan
// and then blocks on waitChan, which nobody will ever serve.
func TestFinding_F14_WaitAfterClose(t *testing.T) {
	s := NewStore(&StoreOptions[string, string]{MaxSize: 100})
	s.Set("k", "v", 1, 0)
	s.Wait()
	s.Close()
	time.Sleep(100 * time.Millisecond) // the maintenance goroutine observes ctx.Done and exits

	done := make(chan struct{})
	go func() { s.Wait(); close(done) }()
	select {
	case <-done:
	case <-time.After(3 * time.Second):
		t.Errorf("Wait() called after Close() did not return within 3s: marker queued (len(writeChan)=%d), nobody left to send on waitChan", len(s.writeChan))
		// unblock the stuck goroutine
		select {
		case s.waitChan <- true:
		case <-time.After(time.Second):
		}
	}
}
