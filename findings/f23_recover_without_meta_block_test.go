// place in: internal/
package internal

import (
	"bytes"
	"encoding/gob"
	"testing"
	"time"
)

// F23 (C12, Recover/assert.meta_before_entries): Recover(version, r) loads entries only from a stream
// that was saved under the same version ("VersionMismatch" otherwise); the version lives in the meta
// block, so entries must not be accepted before a meta block has been seen and checked.
// Recover handles blocks in whatever order they arrive and never checks that a meta block was present:
// a stream whose meta block is missing (truncated head, concatenated/filtered stream, other writer)
// is loaded completely under any version, the clock origin (needed to interpret the entries'
// deadlines) is never set, and nil is returned.
func TestFinding_F23_RecoverWithoutMetaBlock(t *testing.T) {
	src := NewStore(&StoreOptions[int, int]{MaxSize: 100})
	defer src.Close()
	for i := 0; i < 5; i++ {
		src.Set(i, i, 1, 0)
	}
	done := make(chan struct{})
	go func() { src.Wait(); close(done) }()
	select {
	case <-done:
	case <-time.After(5 * time.Second):
		t.Fatalf("Wait did not return")
	}
	saved := &bytes.Buffer{}
	if err := src.Persist(7, saved); err != nil { // saved under version 7
		t.Fatal(err)
	}

	// sanity: the complete stream is refused under another version
	probe := NewStore(&StoreOptions[int, int]{MaxSize: 100})
	defer probe.Close()
	if err := probe.Recover(999, bytes.NewReader(saved.Bytes())); err != VersionMismatch {
		t.Fatalf("test set-up: complete stream under version 999: err = %v, want VersionMismatch", err)
	}

	// the same stream without its meta block (type 1)
	stripped := &bytes.Buffer{}
	dec := gob.NewDecoder(bytes.NewReader(saved.Bytes()))
	enc := gob.NewEncoder(stripped)
	metaBlocks := 0
	for {
		block := &DataBlock[any]{}
		if err := dec.Decode(block); err != nil {
			break
		}
		if block.Type == 1 {
			metaBlocks++
			continue
		}
		if err := enc.Encode(block); err != nil {
			t.Fatal(err)
		}
	}
	if metaBlocks != 1 {
		t.Fatalf("test set-up: %d meta blocks found", metaBlocks)
	}

	dst := NewStore(&StoreOptions[int, int]{MaxSize: 100})
	defer dst.Close()
	err := dst.Recover(999, bytes.NewReader(stripped.Bytes()))
	if err == nil || dst.Len() != 0 {
		t.Errorf("stream saved under version 7, meta block missing: Recover(version 999) = %v and loaded %d entries; want an error and nothing loaded (the version was never checked)",
			err, dst.Len())
	}
}
