// place in: internal/
package internal

import (
	"testing"
	"time"
)

// F24 (C15, processSecondary/post.error_path_bounded): the number of resident entries is bounded by
// MaxSize (plus what is in flight to the secondary tier), also when the secondary tier fails.
// An evicted entry is unlinked from the policy and the wheel, then handed to the secondary worker
// while it is still in the map; the worker removes it from the map only after a successful write.
// When secondaryCache.Set fails the worker reports the error and moves on: the entry stays in the
// map for good - readable, but unknown to the policy and the wheel, so nothing will ever evict or
// expire it. With a failing secondary tier the cache grows without bound.
func TestFinding_F24_FailingSecondaryUnboundedMap(t *testing.T) {
	const maxSize = 10
	secondary := NewSimpleMapSecondary[int, int]()
	secondary.ErrMode = true // every write to the secondary tier fails
	s := NewStore(&StoreOptions[int, int]{MaxSize: maxSize, SecondaryCache: secondary, Workers: 2, Probability: 1})
	defer s.Close()

	const n = 2000
	for i := 0; i < n; i++ {
		s.Set(i, i, 1, 0)
		done := make(chan struct{})
		go func() { s.Wait(); close(done) }()
		select {
		case <-done:
		case <-time.After(5 * time.Second):
			t.Fatalf("Wait did not return")
		}
	}
	limit := time.Now().Add(3 * time.Second)
	for len(s.secondaryCacheBuf) != 0 && time.Now().Before(limit) {
		time.Sleep(time.Millisecond)
	}
	time.Sleep(100 * time.Millisecond) // workers idle

	resident, size := s.Len(), s.EstimatedSize()
	readable := 0
	for i := 0; i < n; i++ {
		if _, ok := s.Get(i); ok {
			readable++
		}
	}
	if resident > maxSize {
		t.Errorf("failing secondary tier (%d write errors): %d entries resident (%d readable) in a MaxSize-%d cache, EstimatedSize() = %d; evicted entries left the policy but stay in the map forever",
			secondary.ErrCounter.Load(), resident, readable, maxSize, size)
	}
}
