// place in: internal/
package internal

import (
	"testing"
	"time"
)

// F17 (C14, Set/monitor.keep.case_sec_present): the secondary tier never holds, for a key, a value
// older than the last value Set for that key - otherwise a later Get can travel back in time.
// Set only writes to the in-memory tier; an older copy of the key in the secondary tier is neither
// updated nor invalidated. When the in-memory copy leaves without write-back (here: it expires),
// Get falls through to the secondary tier and returns the value from before the Set.
func TestFinding_F17_SetKeepsStaleSecondaryCopy(t *testing.T) {
	secondary := NewSimpleMapSecondary[string, int]()
	s := NewStore(&StoreOptions[string, int]{MaxSize: 1, SecondaryCache: secondary, Workers: 1, Probability: 1})
	defer s.Close()

	s.Set("k", 100, 1, time.Hour)
	f17wait(t, s)
	s.Set("other", 1, 1, time.Hour) // MaxSize 1: k is evicted to the secondary tier
	f17wait(t, s)
	f17until(t, "k moved to the secondary tier", func() bool {
		_, _, _, inSecondary, _ := secondary.Get("k")
		_, index := s.index("k")
		tk := s.shards[index].mu.RLock()
		_, inMap := s.shards[index].hashmap["k"]
		s.shards[index].mu.RUnlock(tk)
		return inSecondary && !inMap
	})

	if !s.Set("k", 200, 1, 2*time.Second) { // the user overwrites k
		t.Fatalf("Set failed")
	}
	f17wait(t, s)
	if v, ok, _ := s.GetWithSecodary("k"); !ok || v != 200 {
		t.Fatalf("test set-up: Get(k) = %d,%v want 200", v, ok)
	}
	if v, _, _, ok, _ := secondary.Get("k"); ok && v != 200 {
		t.Logf("after Set(k, 200) the secondary tier still holds k=%d", v)
	}

	// 3 s later the in-memory copy (TTL 2 s) has expired
	s.policyMu.Lock()
	s.timerwheel.clock.Start = s.timerwheel.clock.Start.Add(-3 * time.Second)
	s.policyMu.Unlock()
	v, ok, err := s.GetWithSecodary("k")
	if err != nil {
		t.Fatal(err)
	}
	if ok && v != 200 {
		t.Errorf("Set(k, 200) succeeded, later Get(k) = %d: the older copy in the secondary tier was never invalidated and is served once the in-memory copy expired", v)
	}
}

func f17wait(t *testing.T, s *Store[string, int]) {
	done := make(chan struct{})
	go func() { s.Wait(); close(done) }()
	select {
	case <-done:
	case <-time.After(5 * time.Second):
		t.Fatalf("Wait did not return")
	}
}

func f17until(t *testing.T, what string, cond func() bool) {
	limit := time.Now().Add(3 * time.Second)
	for !cond() {
		if time.Now().After(limit) {
			t.Fatalf("test set-up: timed out waiting for: %s", what)
		}
		time.Sleep(time.Millisecond)
	}
}
