// place in: internal/
package internal

import (
	"testing"
	"time"
)

// F18 (C14, sinkWrite(UPDATE)/monitor.keep.fromNVM): the "from secondary tier" flag means "the
// secondary tier holds an identical copy, no write-back needed on eviction"; an update must clear it.
// An entry promoted from the secondary tier carries the flag. Set on that key changes the value in
// memory, the UPDATE event leaves the flag alone. On eviction removeEntry sees IsFromNVM() and drops
// the entry without write-back; the secondary tier still holds the value from before the update and
// the next Get returns it.
func TestFinding_F18_PromotedUpdateLost(t *testing.T) {
	secondary := NewSimpleMapSecondary[string, int]()
	s := NewStore(&StoreOptions[string, int]{MaxSize: 1, SecondaryCache: secondary, Workers: 1, Probability: 1})
	defer s.Close()
	inMap := func(k string) bool {
		_, index := s.index(k)
		tk := s.shards[index].mu.RLock()
		_, ok := s.shards[index].hashmap[k]
		s.shards[index].mu.RUnlock(tk)
		return ok
	}

	s.Set("k", 100, 1, time.Hour)
	f18wait(t, s)
	s.Set("o1", 1, 1, time.Hour) // evicts k to the secondary tier
	f18wait(t, s)
	f18until(t, "k moved to the secondary tier", func() bool {
		_, _, _, ok, _ := secondary.Get("k")
		return ok && !inMap("k")
	})

	if v, ok, err := s.GetWithSecodary("k"); err != nil || !ok || v != 100 { // promotion
		t.Fatalf("test set-up: promotion failed: %v %v %v", v, ok, err)
	}
	f18wait(t, s)
	f18until(t, "o1 moved out", func() bool { return !inMap("o1") })

	if !s.Set("k", 200, 1, time.Hour) { // update of the promoted key
		t.Fatalf("Set failed")
	}
	f18wait(t, s)
	if v, ok, _ := s.GetWithSecodary("k"); !ok || v != 200 {
		t.Fatalf("test set-up: Get(k) = %d,%v want 200", v, ok)
	}

	s.Set("o2", 2, 1, time.Hour) // evicts k
	f18wait(t, s)
	f18until(t, "k evicted from memory", func() bool { return !inMap("k") })
	time.Sleep(50 * time.Millisecond) // a write-back, if any, would have happened by now

	sv, _, _, sok, _ := secondary.Get("k")
	v, ok, err := s.GetWithSecodary("k")
	if err != nil {
		t.Fatal(err)
	}
	if !ok || v != 200 {
		t.Errorf("k was promoted (100), updated to 200, then evicted: Get(k) = (%d, %v), want 200; secondary tier holds (%d, %v) - evicted without write-back because the entry is still flagged 'from secondary'",
			v, ok, sv, sok)
	}
}

func f18wait(t *testing.T, s *Store[string, int]) {
	done := make(chan struct{})
	go func() { s.Wait(); close(done) }()
	select {
	case <-done:
	case <-time.After(5 * time.Second):
		t.Fatalf("Wait did not return")
	}
}

func f18until(t *testing.T, what string, cond func() bool) {
	limit := time.Now().Add(3 * time.Second)
	for !cond() {
		if time.Now().After(limit) {
			t.Fatalf("test set-up: timed out waiting for: %s", what)
		}
		time.Sleep(time.Millisecond)
	}
}
