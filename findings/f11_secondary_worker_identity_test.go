// place in: internal/
package internal

import (
	"testing"
	"time"
)

// F11 (C14/C19, processSecondary/pre.identity, /lock.entry_value): the secondary tier only ever
// receives the value that is current for a key; a value the user deleted must not come back.
// An evicted entry is queued for the secondary-tier worker and stays in the map until the worker has
// written it. The worker "double checks the key still exists in the map" - it checks that *a* value
// for the key exists, not that the map still holds *this* entry. After evict -> Delete -> Set the map
// holds a different entry for the key, so the worker writes the deleted entry's value 111 to the
// secondary tier (even though Delete had just cleared the key there). When the new in-memory value
// goes away, Get serves 111 from the secondary tier.
//
// Schedule: the store is created without workers, so the evicted item waits in secondaryCacheBuf
// ("worker busy"); the worker is started after Delete and Set.
func TestFinding_F11_SecondaryWorkerIdentity(t *testing.T) {
	secondary := NewSimpleMapSecondary[string, int]()
	s := NewStore(&StoreOptions[string, int]{MaxSize: 1, SecondaryCache: secondary, Workers: 0, Probability: 1})
	defer s.Close()

	s.Set("k", 111, 1, time.Hour)
	f11wait(t, s)
	s.Set("other", 1, 1, 0) // MaxSize 1: evicts k -> queued for the secondary worker
	f11wait(t, s)
	if len(s.secondaryCacheBuf) != 1 {
		t.Fatalf("test set-up: expected the evicted entry to be queued for the worker (queued=%d)", len(s.secondaryCacheBuf))
	}

	if err := s.DeleteWithSecondary("k"); err != nil { // HybridCache.Delete: removes k from both tiers
		t.Fatal(err)
	}
	s.Set("k", 222, 1, 2*time.Second)
	f11wait(t, s)

	go s.processSecondary() // the worker gets round to its queue
	limit := time.Now().Add(3 * time.Second)
	for len(s.secondaryCacheBuf) != 0 {
		if time.Now().After(limit) {
			t.Fatalf("test set-up: worker did not drain its queue")
		}
		time.Sleep(time.Millisecond)
	}
	time.Sleep(50 * time.Millisecond)

	cur, ok, err := s.GetWithSecodary("k")
	if err != nil || !ok || cur != 222 {
		t.Fatalf("test set-up: current value should be 222, got %v %v %v", cur, ok, err)
	}
	if v, _, _, ok, _ := secondary.Get("k"); ok && v != 222 {
		t.Errorf("secondary tier holds k=%d, a value that was deleted by Delete(k) (current value is 222): the worker wrote an entry that is no longer the map's entry for k", v)
	}

	// the in-memory value 222 expires after 2 s; 3 s later:
	s.policyMu.Lock()
	s.timerwheel.clock.Start = s.timerwheel.clock.Start.Add(-3 * time.Second)
	s.policyMu.Unlock()
	v, ok, err := s.GetWithSecodary("k")
	if err != nil {
		t.Fatal(err)
	}
	if ok {
		t.Errorf("after the current value expired, Get(k) = %d: the value deleted earlier is served from the secondary tier (want a miss)", v)
	}
}

func f11wait(t *testing.T, s *Store[string, int]) {
	done := make(chan struct{})
	go func() { s.Wait(); close(done) }()
	select {
	case <-done:
	case <-time.After(5 * time.Second):
		t.Fatalf("Wait did not return")
	}
}
