// place in: internal/
package internal

import (
	"context"
	"testing"
	"time"
)

// F19 (C15, LoadingStore.Get/post.flag_origin): only entries that were read from the secondary tier
// are flagged "from secondary" (= a clean copy exists there, skip the write-back on eviction).
// LoadingStore.Get hands every entry to the policy with fromNVM = true - also the ones produced by the
// loader. removeEntry therefore skips the secondary tier for all of them: in a hybrid loading cache
// that is filled through the loader nothing ever reaches the secondary tier.
func TestFinding_F19_LoaderEntriesFlaggedFromSecondary(t *testing.T) {
	secondary := NewSimpleMapSecondary[int, int]()
	store := NewStore(&StoreOptions[int, int]{MaxSize: 10, SecondaryCache: secondary, Workers: 2, Probability: 1})
	s := NewLoadingStore(store)
	s.Loader(func(ctx context.Context, key int) (Loaded[int], error) {
		return Loaded[int]{Value: key, Cost: 1, TTL: time.Hour}, nil
	})
	defer s.Close()

	const n = 200
	for i := 0; i < n; i++ {
		if v, err := s.Get(context.Background(), i); err != nil || v != i {
			t.Fatalf("Get(%d) = %v, %v", i, v, err)
		}
	}
	f19wait(t, store)
	time.Sleep(100 * time.Millisecond) // let the workers finish

	resident := s.Len()
	flagged := 0
	s.policyMu.Lock()
	s.RangeEntry(func(e *Entry[int, int]) {
		if e.flag.IsFromNVM() {
			flagged++
		}
	})
	s.policyMu.Unlock()
	secondary.mu.Lock()
	inTier := len(secondary.m)
	secondary.mu.Unlock()
	evicted := n - resident

	if inTier == 0 {
		t.Errorf("%d keys loaded through the loader into a MaxSize-10 hybrid cache (admission probability 1): %d evicted, %d of them reached the secondary tier; %d of %d resident loader entries are flagged 'from secondary'",
			n, evicted, inTier, flagged, resident)
	}
}

func f19wait(t *testing.T, s *Store[int, int]) {
	done := make(chan struct{})
	go func() { s.Wait(); close(done) }()
	select {
	case <-done:
	case <-time.After(5 * time.Second):
		t.Fatalf("Wait did not return")
	}
}
