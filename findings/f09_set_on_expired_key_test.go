// place in: internal/
package internal

import (
	"testing"
	"time"
)

// F9 (C06, Set/post.readable.case_prev_expired, post.fresh_deadline): a successful Set(key, value, no TTL)
// must make the value readable, and the value must not carry a deadline.
// setShardWithoutLock re-uses the resident entry when the key is still in the map. If that entry has
// expired but has not been reclaimed by the timer wheel yet, a Set without TTL (expire == 0) only
// swaps value and cost: the old, already passed deadline stays on the entry. Set reports true, yet
// the value cannot be read, and the wheel later reclaims the "new" value at the old deadline.
//
// Schedule: policyMu is held so that neither the ticker nor the maintenance goroutine can reclaim the
// expired entry between the expiry and the second Set.
func TestFinding_F09_SetOnExpiredKey(t *testing.T) {
	s := NewStore(&StoreOptions[string, string]{MaxSize: 100})
	defer s.Close()

	s.Set("k", "old", 1, 20*time.Millisecond)
	s.Wait()

	s.policyMu.Lock()
	time.Sleep(40 * time.Millisecond) // the deadline passes, the entry is not reclaimed yet
	if _, ok := s.Get("k"); ok {
		s.policyMu.Unlock()
		t.Fatalf("test set-up: old value still readable after its deadline")
	}

	okSet := s.Set("k", "new", 1, 0) // no TTL: the value must live until evicted or deleted
	v, okGet := s.Get("k")
	h, index := s.index("k")
	_ = h
	tk := s.shards[index].mu.RLock()
	e := s.shards[index].hashmap["k"]
	expire := e.expire.Load()
	stored := e.value
	s.shards[index].mu.RUnlock(tk)
	now := s.timerwheel.clock.NowNano()
	s.policyMu.Unlock()

	if !okSet {
		t.Fatalf("Set returned false")
	}
	if !okGet || v != "new" {
		t.Errorf("Set(k, new, ttl=0) returned true but Get(k) = (%q, %v): the stored value is %q and unreadable", v, okGet, stored)
	}
	if expire != 0 {
		t.Errorf("Set(k, new, ttl=0): entry inherits the dead deadline %d (%.0f ms in the past), want 0 (no deadline)",
			expire, float64(now-expire)/1e6)
	}

	// the wheel then throws the fresh value away at the old deadline
	s.Wait()
	s.policyMu.Lock()
	s.timerwheel.advance(s.timerwheel.clock.NowNano()+int64(3*time.Second), s.removeEntry)
	s.policyMu.Unlock()
	if n := s.Len(); n != 1 {
		t.Errorf("after the next wheel advance the TTL-less value is reclaimed as EXPIRED: Len() = %d, want 1", n)
	}
}
