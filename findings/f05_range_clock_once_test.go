// place in: internal/
package internal

import (
	"testing"
	"time"
)

// F5 (C03, Range/post.visit_time): Range must not hand an entry to the callback after the entry's
// deadline ("calls f for each key and value present in the cache"; Get never returns such an entry).
// Range reads the clock exactly once, before the first shard, and compares every entry with that
// single reading. With a callback that takes time, every entry visited after the common deadline is
// still delivered although it has expired in the meantime.
//
// 200 entries with a TTL of 100 ms, the callback takes 1 ms: the walk needs >= 200 ms, so roughly
// half of the callbacks happen after the deadline. The test counts callbacks at which the real clock
// is already past the delivered entry's deadline.
func TestFinding_F05_RangeClockReadOnce(t *testing.T) {
	s := NewStore(&StoreOptions[int, int]{MaxSize: 1000})
	defer s.Close()

	const n = 200
	deadline := map[int]int64{}
	for i := 0; i < n; i++ {
		s.Set(i, i, 1, 100*time.Millisecond)
	}
	s.RangeEntry(func(e *Entry[int, int]) { deadline[e.key] = e.expire.Load() })
	if len(deadline) != n {
		t.Fatalf("test set-up: %d entries resident, want %d", len(deadline), n)
	}

	delivered, late := 0, 0
	var worst int64
	s.Range(func(key, value int) bool {
		now := s.timerwheel.clock.NowNano()
		delivered++
		if d := now - deadline[key]; d >= 0 {
			late++
			if d > worst {
				worst = d
			}
		}
		time.Sleep(time.Millisecond) // a slow callback
		return true
	})

	if late > 0 {
		t.Errorf("Range delivered %d of %d callbacks AFTER the entry's deadline (worst: %.0f ms after); the clock is read once per Range, not per visit",
			late, delivered, float64(worst)/1e6)
	}
}
