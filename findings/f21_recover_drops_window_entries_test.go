// place in: internal/
package internal

import (
	"bytes"
	"testing"
	"time"
)

// F21 (C11, Recover/post.all_restored): a snapshot taken from a cache of MaxSize N that holds <= N
// unexpired entries is restored completely into a fresh cache of the same MaxSize.
// The hill climber moves capacity between the admission window and the protected segment at run
// time, so the saved window list can be much longer than 1% of MaxSize. Recover rebuilds the lists
// into a fresh policy whose window capacity is the initial 1% and silently drops every window entry
// beyond that; the adaptive split itself is not part of the snapshot.
//
// The window is grown by the library's own hill climber: a workload whose hit ratio first drops and
// then rises sample after sample (hits are fed through Store.drainRead, which is what a drained read
// buffer does; misses are plain Sets of new keys).
func TestFinding_F21_RecoverDropsWindowEntries(t *testing.T) {
	const size = 100
	s := NewStore(&StoreOptions[int, int]{MaxSize: size})
	defer s.Close()

	next := 1000
	miss := func() {
		s.Set(next, next, 1, 0)
		next++
		f21wait(t, s)
	}
	hit := func(k int) {
		h, index := s.index(k)
		tk := s.shards[index].mu.RLock()
		e := s.shards[index].hashmap[k]
		s.shards[index].mu.RUnlock(tk)
		if e == nil {
			s.Set(k, k, 1, 0)
			f21wait(t, s)
			return
		}
		s.drainRead([]ReadBufItem[int, int]{{entry: e, hash: h}})
	}
	for i := 0; i < size; i++ {
		s.Set(i, i, 1, 0)
	}
	f21wait(t, s)

	// one round = one sample of the hill climber (it evaluates and resets its counters when
	// hits+misses exceed sketch.SampleSize); hit ratios per sample:
	counted := func() uint64 {
		s.policyMu.Lock()
		defer s.policyMu.Unlock()
		return s.policy.hitsInSample + s.policy.missesInSample
	}
	for round, ratio := range []int{90, 50, 52, 54, 56, 58, 60, 62} {
		prev := counted()
		for i := 0; i < 100000; i++ {
			if i%100 < ratio {
				hit(i % 10) // a small hot set
			} else {
				miss()
			}
			c := counted()
			if c < prev { // the climber has evaluated the sample
				break
			}
			prev = c
		}
		s.policyMu.Lock()
		t.Logf("sample %d (hit ratio %d%%): window capacity now %d", round, ratio, s.policy.window.capacity)
		s.policyMu.Unlock()
	}

	s.policyMu.Lock()
	windowCap, windowLen := s.policy.window.capacity, s.policy.window.Len()
	s.policyMu.Unlock()
	saved := s.Len()
	if saved != size {
		t.Fatalf("test set-up: %d entries resident, want %d", saved, size)
	}
	if windowCap < 20 {
		t.Fatalf("test set-up: adaptive window did not grow (capacity %d)", windowCap)
	}

	buf := &bytes.Buffer{}
	if err := s.Persist(1, buf); err != nil {
		t.Fatal(err)
	}
	fresh := NewStore(&StoreOptions[int, int]{MaxSize: size})
	defer fresh.Close()
	if err := fresh.Recover(1, bytes.NewReader(buf.Bytes())); err != nil {
		t.Fatal(err)
	}
	if got := fresh.Len(); got != saved {
		t.Errorf("adaptive window had grown to capacity %d (holding %d entries); %d entries saved from MaxSize %d, %d restored into a fresh cache of the same MaxSize: %d entries silently dropped, Recover returned nil",
			windowCap, windowLen, saved, size, got, saved-got)
	}
}

func f21wait(t *testing.T, s *Store[int, int]) {
	done := make(chan struct{})
	go func() { s.Wait(); close(done) }()
	select {
	case <-done:
	case <-time.After(5 * time.Second):
		t.Fatalf("Wait did not return")
	}
}
