// place in: internal/
package internal

import (
	"sync/atomic"
	"testing"
	"time"
)

// F15 (C10, policyNewEntry/blocking.send and the sibling sends in policyUpdateEntry, Delete,
// DeleteWithSecondary): no public call blocks forever, in particular not across Close.
// A writer tests shard.closed under the shard lock, releases the lock and then sends its event on
// writeChan with a plain blocking send. Close cancels the context and the maintenance goroutine - the
// only receiver - leaves its loop at the next `select` that picks ctx.Done, without draining the queue.
// Every writer that passed the closed test and is still waiting for room in the queue is parked for good.
//
// Schedule: policyMu is held (a long policy operation), so the queue runs full and further writers
// block on the send, all of them having passed the closed test. Close() is called (it waits for
// policyMu). policyMu is released. The maintenance goroutine needs ~60 more batches to serve all
// parked writers; after cancel() each pass through its select exits with probability 1/2, so it
// leaves after a handful of batches (the test needs just one writer to remain; the chance that none
// remains is about 2^-50).
func TestFinding_F15_WriterParkedAfterClose(t *testing.T) {
	s := NewStore(&StoreOptions[int, int]{MaxSize: 1 << 20})

	s.policyMu.Lock()
	queueRoom := cap(s.writeChan) + WriteBufferSize
	writers := queueRoom + 64*WriteBufferSize
	var returned atomic.Int64
	for i := 0; i < writers; i++ {
		go func(i int) {
			s.Set(i, i, 1, 0)
			returned.Add(1)
		}(i)
	}
	// wait until the queue is full and the remaining writers are parked on the send
	limit := time.Now().Add(10 * time.Second)
	for {
		before := returned.Load()
		time.Sleep(100 * time.Millisecond)
		if after := returned.Load(); after == before && len(s.writeChan) == cap(s.writeChan) {
			break
		}
		if time.Now().After(limit) {
			s.policyMu.Unlock()
			t.Fatalf("test set-up: writers did not settle")
		}
	}
	parked := int64(writers) - returned.Load()
	if parked < 60*int64(WriteBufferSize) {
		s.policyMu.Unlock()
		t.Fatalf("test set-up: only %d writers parked", parked)
	}

	closed := make(chan struct{})
	go func() { s.Close(); close(closed) }()
	time.Sleep(100 * time.Millisecond) // Close has marked all shards closed and waits for policyMu
	s.policyMu.Unlock()

	select {
	case <-closed:
	case <-time.After(5 * time.Second):
		t.Fatalf("Close did not return")
	}
	// give the parked writers ample time
	limit = time.Now().Add(3 * time.Second)
	for returned.Load() != int64(writers) && time.Now().Before(limit) {
		time.Sleep(50 * time.Millisecond)
	}
	if stuck := int64(writers) - returned.Load(); stuck > 0 {
		t.Errorf("%d of %d Set() calls that had passed the closed test are still blocked 3s after Close() returned: "+
			"write queue full (%d/%d) and the maintenance goroutine has exited - they are parked forever",
			stuck, writers, len(s.writeChan), cap(s.writeChan))
	}
}
