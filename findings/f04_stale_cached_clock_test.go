// place in: internal/
package internal

import (
	"testing"
	"time"
)

// F4 (C03, getFromShard/post.case_stale_cache): Get must never return a value after its deadline.
// getFromShard compares the deadline with the *cached* clock first and only consults the real clock
// when the deadline is less than 30 s ahead of the cached clock. The cached clock is refreshed by the
// ticker goroutine under policyMu, so when policyMu is held by a long operation (Persist, a slow
// removal listener, a long drain, ...) the cached clock goes stale. Once it is more than 30 s stale
// an entry that is already past its deadline is still served.
//
// Schedule: policyMu is held for the whole "long operation" (ticker stalled, cached clock frozen);
// 45 s of wall time pass (the clock origin is moved back instead of sleeping); the entry had a TTL
// of 40 s, so the Get happens 5 s after the deadline.
func TestFinding_F04_StaleCachedClock(t *testing.T) {
	s := NewStore(&StoreOptions[string, string]{MaxSize: 100})
	defer s.Close()

	s.Set("k", "v", 1, 40*time.Second)
	s.Wait()

	// a long operation takes the policy lock: the ticker cannot refresh the cached clock any more
	s.policyMu.Lock()
	defer s.policyMu.Unlock()
	cachedBefore := s.timerwheel.clock.NowNanoCached()

	// 45 s pass while the lock is held
	s.timerwheel.clock.Start = s.timerwheel.clock.Start.Add(-45 * time.Second)

	h, index := s.index("k")
	res, ok := s.getFromShard("k", h, s.shards[index])

	now := s.timerwheel.clock.NowNano()
	deadline := res.entry.expire.Load()
	stale := now - s.timerwheel.clock.NowNanoCached()
	if s.timerwheel.clock.NowNanoCached() != cachedBefore {
		t.Fatalf("test set-up: cached clock was refreshed although policyMu is held")
	}
	if now <= deadline {
		t.Fatalf("test set-up: deadline not reached (now %d, deadline %d)", now, deadline)
	}
	if ok {
		t.Errorf("expired value served: Get(k) = %q, ok=true, %.1fs AFTER its deadline (cached clock is %.1fs stale, real clock never consulted)",
			res.value, float64(now-deadline)/1e9, float64(stale)/1e9)
	}
}
