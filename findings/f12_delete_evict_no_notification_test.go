// place in: internal/
package internal

import (
	"sync"
	"testing"
	"time"
)

// F12 (C05, sinkWrite(REMOVE)/post.notifies_once.case_already_evicted): every entry that leaves the
// cache is reported to the removal listener exactly once.
// Delete removes the entry from the shard map and only afterwards queues the REMOVE event. If the
// policy evicts the same entry in between, removeEntry(EVICTED) finds the map slot already empty
// (shard.delete returns false -> no notification) and flags the entry removed; the REMOVE event that
// follows is then dropped by sinkWrite ("ignore removed entries") before the listener is called.
// Result: the entry is gone and nobody was told.
//
// Schedule (public API + policyMu only): MaxSize 1, victim "v" is resident. policyMu is held, the
// write queue is filled up, its first event being NEW("w"), which evicts "v" when processed.
// Delete("v") removes "v" from the map and then blocks on the full queue, i.e. its REMOVE event is
// behind the eviction. policyMu is released.
func TestFinding_F12_DeleteEvictNoNotification(t *testing.T) {
	var mu sync.Mutex
	notified := map[string][]RemoveReason{}
	s := NewStore(&StoreOptions[string, int]{MaxSize: 1, Listener: func(k string, v int, r RemoveReason) {
		mu.Lock()
		notified[k] = append(notified[k], r)
		mu.Unlock()
	}})
	defer s.Close()

	s.Set("v", 1, 1, 0)
	s.Wait()
	if s.EstimatedSize() != 1 {
		t.Fatalf("test set-up: victim not in policy")
	}

	s.policyMu.Lock()
	// fill the queue: NEW(w) first, then no-op updates of w; the maintenance goroutine takes at most
	// one batch and parks on policyMu
	limit := time.Now().Add(5 * time.Second)
	for i := 0; ; i++ {
		if len(s.writeChan) < cap(s.writeChan) {
			s.Set("w", i, 1, 0)
			continue
		}
		time.Sleep(20 * time.Millisecond)
		if len(s.writeChan) == cap(s.writeChan) {
			break
		}
		if time.Now().After(limit) {
			s.policyMu.Unlock()
			t.Fatalf("test set-up: cannot fill the write queue")
		}
	}

	deleted := make(chan struct{})
	go func() { s.Delete("v"); close(deleted) }()
	// wait until Delete has taken "v" out of the map; it then blocks sending its REMOVE event
	_, index := s.index("v")
	for {
		tk := s.shards[index].mu.RLock()
		_, present := s.shards[index].hashmap["v"]
		s.shards[index].mu.RUnlock(tk)
		if !present {
			break
		}
		if time.Now().After(limit) {
			s.policyMu.Unlock()
			t.Fatalf("test set-up: Delete did not remove the map entry")
		}
		time.Sleep(time.Millisecond)
	}
	time.Sleep(20 * time.Millisecond)
	select {
	case <-deleted:
		s.policyMu.Unlock()
		t.Fatalf("test set-up: Delete was expected to block on the full queue")
	default:
	}
	s.policyMu.Unlock()

	select {
	case <-deleted:
	case <-time.After(5 * time.Second):
		t.Fatalf("Delete did not return")
	}
	waited := make(chan struct{})
	go func() { s.Wait(); close(waited) }()
	select {
	case <-waited:
	case <-time.After(5 * time.Second):
		t.Fatalf("Wait did not return")
	}

	_, present := s.Get("v")
	mu.Lock()
	got := append([]RemoveReason{}, notified["v"]...)
	mu.Unlock()
	if present {
		t.Fatalf("test set-up: v still readable")
	}
	if len(got) != 1 {
		t.Errorf("entry v has left the cache (Get miss, Len=%d, EstimatedSize=%d) but the removal listener was called %d times for it (reasons %v), want exactly 1",
			s.Len(), s.EstimatedSize(), len(got), got)
	}
}
