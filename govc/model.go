package main

// Memory model: how Go types map to SMT sorts, heap arrays and symbolic values.

import (
	"fmt"
	"go/types"
	"sort"
	"strings"
)

// ---- symbolic values -------------------------------------------------------

type Val interface{ isVal() }

type Scalar struct {
	T string
	S Sort
}
type SliceV struct{ Arr, Len string } // Arr: Ref, Len: BV64
type StructV struct {
	Names []string
	F     map[string]Val
}
type TupleV struct{ Vs []Val }
type FuncV struct {
	Name string // descriptive
	Lit  interface{}
	Fn   *types.Func
	Recv Val
	Env  *State
}

func (*Scalar) isVal()  {}
func (*SliceV) isVal()  {}
func (*StructV) isVal() {}
func (*TupleV) isVal()  {}
func (*FuncV) isVal()   {}

func sc(t string, s Sort) *Scalar { return &Scalar{t, s} }

func (v *StructV) clone() *StructV {
	n := &StructV{Names: v.Names, F: map[string]Val{}}
	for k, x := range v.F {
		if sv, ok := x.(*StructV); ok {
			n.F[k] = sv.clone()
		} else {
			n.F[k] = x
		}
	}
	return n
}

// ---- type classification ------------------------------------------------------

type tkind int

const (
	kScalar tkind = iota
	kSlice
	kStruct
	kOpaque // sync primitives, padding, arrays we do not model
	kArray
)

func isAtomicType(t types.Type) (Sort, bool) {
	n, ok := t.(*types.Named)
	if !ok || n.Obj().Pkg() == nil || n.Obj().Pkg().Path() != "sync/atomic" {
		return "", false
	}
	switch n.Obj().Name() {
	case "Int64", "Uint64":
		return BV(64), true
	case "Int32", "Uint32":
		return BV(32), true
	case "Bool":
		return SBool, true
	case "Pointer", "Value":
		return SRef, true
	}
	return "", false
}

func isOpaqueNamed(t types.Type) bool {
	n, ok := t.(*types.Named)
	if !ok || n.Obj().Pkg() == nil {
		return false
	}
	switch n.Obj().Pkg().Path() {
	case "sync":
		return true // Mutex, RWMutex, WaitGroup, Pool, Once (by value)
	case "time":
		return n.Obj().Name() == "Time"
	case "hash/maphash":
		return true
	case "bytes", "encoding/gob":
		return true
	}
	return false
}

func classify(t types.Type) tkind {
	if _, ok := isAtomicType(t); ok {
		return kScalar
	}
	if isOpaqueNamed(t) {
		return kOpaque
	}
	switch u := t.Underlying().(type) {
	case *types.Slice:
		return kSlice
	case *types.Struct:
		_ = u
		return kStruct
	case *types.Array:
		return kArray
	}
	return kScalar
}

func signedType(t types.Type) bool {
	if b, ok := t.Underlying().(*types.Basic); ok {
		return b.Info()&types.IsInteger != 0 && b.Info()&types.IsUnsigned == 0
	}
	return false
}

func isIntType(t types.Type) bool {
	if b, ok := t.Underlying().(*types.Basic); ok {
		return b.Info()&types.IsInteger != 0
	}
	return false
}

func isFloatType(t types.Type) bool {
	if b, ok := t.Underlying().(*types.Basic); ok {
		return b.Info()&types.IsFloat != 0
	}
	return false
}

func intWidth(b *types.Basic) int {
	switch b.Kind() {
	case types.Int8, types.Uint8:
		return 8
	case types.Int16, types.Uint16:
		return 16
	case types.Int32, types.Uint32:
		return 32
	case types.Int64, types.Uint64, types.Int, types.Uint, types.Uintptr, types.UntypedInt, types.UntypedRune:
		return 64
	}
	return 0
}

// sortOf returns the SMT sort of a scalar-classified type.
func (vc *VC) sortOf(t types.Type) Sort {
	t = vc.ts(t)
	if s, ok := isAtomicType(t); ok {
		return s
	}
	if n, ok := t.(*types.Named); ok && n.Obj().Pkg() != nil {
		// spec-only numeric types
		switch n.Obj().Name() {
		case "real":
			return SReal
		case "mathint":
			return BV(128) // "mathematical" integers of contracts: 128-bit signed, wide enough for sums and products of 64-bit values
		}
	}
	if tp, ok := t.(*types.TypeParam); ok {
		s := Sort("TP_" + tp.Obj().Name())
		vc.needSort(s)
		return s
	}
	switch u := t.Underlying().(type) {
	case *types.Basic:
		if u.Info()&types.IsBoolean != 0 {
			return SBool
		}
		if u.Info()&types.IsInteger != 0 {
			return BV(intWidth(u))
		}
		if u.Info()&types.IsFloat != 0 {
			if u.Kind() == types.Float32 {
				return SF32
			}
			return SF64
		}
		if u.Info()&types.IsString != 0 {
			vc.needSort(SString)
			return SString
		}
		if u.Kind() == types.UnsafePointer || u.Kind() == types.UntypedNil {
			return SRef
		}
	case *types.Pointer, *types.Map, *types.Chan, *types.Signature, *types.Interface:
		return SRef
	}
	if classify(t) == kOpaque || classify(t) == kArray {
		vc.needSort("Opaque")
		return "Opaque"
	}
	panic(unsupported("sortOf: " + t.String()))
}

type unsupportedErr struct{ msg string }

func (u unsupportedErr) Error() string { return "unsupported: " + u.msg }
func unsupported(f string, a ...interface{}) unsupportedErr {
	return unsupportedErr{fmt.Sprintf(f, a...)}
}

// typeKey gives a stable short name for a type (generic instantiations collapse to the generic type).
func typeKey(t types.Type) string {
	switch u := t.(type) {
	case *types.Named:
		n := u.Obj().Name()
		if p := u.Obj().Pkg(); p != nil && p.Name() != "internal" {
			n = p.Name() + "." + n
		}
		return n
	case *types.Pointer:
		return "*" + typeKey(u.Elem())
	case *types.Slice:
		return "[]" + typeKey(u.Elem())
	case *types.Array:
		return fmt.Sprintf("[%d]%s", u.Len(), typeKey(u.Elem()))
	case *types.Map:
		return "map[" + typeKey(u.Key()) + "]" + typeKey(u.Elem())
	case *types.TypeParam:
		return u.Obj().Name()
	case *types.Basic:
		return u.Name()
	case *types.Chan:
		return "chan " + typeKey(u.Elem())
	case *types.Struct:
		var fs []string
		for i := 0; i < u.NumFields(); i++ {
			fs = append(fs, u.Field(i).Name())
		}
		return "struct{" + strings.Join(fs, ",") + "}"
	case *types.Signature:
		return "func"
	case *types.Interface:
		return "iface"
	}
	return t.String()
}

// ---- leaves ----------------------------------------------------------------------

type leaf struct {
	path  string // "" for the value itself; ".f.g" for nested by-value struct fields
	typ   types.Type
	slice bool // slice leaf: two heap components (#arr,#len)
}

// leavesOf flattens a type into scalar / slice leaves.
func leavesOf(t types.Type, path string, out *[]leaf) {
	switch classify(t) {
	case kScalar, kOpaque, kArray:
		*out = append(*out, leaf{path, t, false})
	case kSlice:
		*out = append(*out, leaf{path, t, true})
	case kStruct:
		st := t.Underlying().(*types.Struct)
		for i := 0; i < st.NumFields(); i++ {
			f := st.Field(i)
			if f.Name() == "_" {
				continue
			}
			leavesOf(f.Type(), path+"."+f.Name(), out)
		}
	}
}

// ---- heap ------------------------------------------------------------------------

// heapGet returns the current SMT constant for a heap array, declaring the entry constant on demand.
func (vc *VC) heapGet(st *State, name string, sort Sort) string {
	if vc.heapTrace != nil {
		seen := false
		for _, r := range *vc.heapTrace {
			if r.name == name {
				seen = true
			}
		}
		if !seen {
			*vc.heapTrace = append(*vc.heapTrace, heapRead{name, sort})
		}
	}
	if c, ok := st.heap[name]; ok {
		if strings.HasPrefix(c, "?havoc") {
			// lazily havoc'd before its sort was known
			if r, ok := vc.lazy[c]; ok {
				return r
			}
			r := vc.declare("H."+name, sort)
			vc.lazy[c] = r
			vc.heapSort[name] = sort
			return r
		}
		return c
	}
	if c, ok := vc.baseHeap[name]; ok {
		return c
	}
	c := vc.declare("H."+name, sort)
	vc.baseHeap[name] = c
	vc.heapSort[name] = sort
	return c
}

func (vc *VC) heapSet(st *State, name string, sort Sort, term string) {
	vc.heapGet(st, name, sort) // make sure the entry value exists (for old())
	c := vc.define("H."+name, sort, term)
	st.heap[name] = c
	vc.written[name] = true
}

// havocHeap replaces a heap array with a fresh unconstrained one.
func (vc *VC) havocHeap(st *State, name string) {
	vc.written[name] = true
	sort, ok := vc.heapSort[name]
	if !ok {
		vc.fresh++
		st.heap[name] = fmt.Sprintf("?havoc%d", vc.fresh)
		return
	}
	vc.heapGet(st, name, sort)
	st.heap[name] = vc.declare("H."+name, sort)
}

func fieldHeapName(owner string, path string) string { return owner + path }

// ownerName of a struct type (for heap naming).
func ownerName(t types.Type) string {
	if p, ok := t.(*types.Pointer); ok {
		t = p.Elem()
	}
	return typeKey(t)
}

func sortedKeys(m map[string]bool) []string {
	var ks []string
	for k := range m {
		ks = append(ks, k)
	}
	sort.Strings(ks)
	return ks
}

type heapRead struct {
	name string
	sort Sort
}
