package main

// Verification-condition state: declarations, trace of assumptions, obligations, symbolic states.

import (
	"fmt"
	"go/ast"
	"go/token"
	"go/types"
	"sort"
	"strings"
)

type Obligation struct {
	Name   string // full name: <func key>/<kind>[.<clause>][#n]
	Func   string
	Kind   string
	Pos    string
	DeclN  int
	TraceN int
	PC     string
	Goal   string
	Desc   string
	// results
	Res SolveResult
	// model hints for replay: names of SMT constants that stand for inputs
	Inputs map[string]string
	// hypothesis selection (sound: dropping hypotheses only weakens what can be proved)
	Only []string // if non-nil: keep only labelled hypotheses whose label has one of these prefixes
	Hide []string // drop labelled hypotheses with these prefixes
	vc    *VC           // the VC (path run) this obligation was generated in
	Parts []*Obligation // path-split functions: the same obligation on each explored path; all must hold
}

func (o *Obligation) dropLabel(l string) bool {
	for _, h := range o.Hide {
		if strings.HasPrefix(l, h) {
			return true
		}
	}
	if o.Only != nil {
		for _, k := range o.Only {
			if strings.HasPrefix(l, k) {
				return false
			}
		}
		return true
	}
	return false
}

type State struct {
	vars   map[types.Object]Val
	heap   map[string]string
	pc     string
	defers []deferred
}

type deferred struct {
	call *ast.CallExpr
	st   *ast.DeferStmt
	fn   Val
	args []Val
	recv Val
	// marker of a lock-accumulating loop (flag accumulates_locks): when the function's defers run, the
	// releases deferred by the loop's iterations run here: lock heap -> value before the loop
	loopRelease map[string]string
	loopExit    map[string]string // lock heap -> value when the loop was left (nil: left by return)
	loopNode    ast.Node
}

func (s *State) clone() *State {
	n := &State{vars: make(map[types.Object]Val, len(s.vars)), heap: make(map[string]string, len(s.heap)), pc: s.pc}
	for k, v := range s.vars {
		n.vars[k] = v
	}
	for k, v := range s.heap {
		n.heap[k] = v
	}
	n.defers = append([]deferred{}, s.defers...)
	return n
}

type VC struct {
	prog *Program
	fn   *FuncInfo
	pkg  *types.Package
	info *types.Info

	decls    []string
	declared map[string]bool
	sorts    map[Sort]bool
	sortList []Sort
	trace    []string
	labels   []string // parallel to trace: origin label of each assumption ("" = always kept)
	curLabel string
	obls     []*Obligation
	fresh    int
	counts   map[string]int

	baseHeap map[string]string
	heapSort map[string]Sort
	lazy     map[string]string
	written  map[string]bool

	// spec evaluation context
	specMode bool
	oldState *State // state at function entry (or before a call) for old()
	frames   []*frame
	bound    map[types.Object]Val // quantifier-bound variables & spec parameter bindings
	inputs   map[string]string
	notes    []string
	callDepth int
	lockTrack bool
	dry       int
	spawned   []string
	blocking  []blockSite
	inSelect  int
	rangeIdx  []rangeInfo
	entry     *State
	lemmaName string
	lemmaSpec *SpecInfo
	canary    *Obligation
	conds     []condRec
	heapTrace *[]heapRead
	opReads   map[*FuncInfo][]heapRead
	revealed  map[string]bool
	snaps     map[string]string
	curState  *State
	specRecv  Val
	specArgs  []Val
	panicPosts bool
	unw        *unwindCtx // non-nil while deferred calls run during an abrupt exit
	goexitTerm string     // value of goexited() while always_* clauses are checked on an unwinding exit
	tsubst    []map[*types.TypeParam]types.Type
	oracle    *pathOracle
	posCount  map[string]int
	loopOld   map[types.Object]Val
	guardSeen map[string]bool
	accum     *accumCtx // innermost enclosing lock-accumulating loop
	acquired  map[string]bool
	inAtomic  int
	curPos    token.Pos
}

// condRec: a branch condition (named boolean) and the trace position at which it became defined
type condRec struct {
	term   string
	traceN int
}

type frame struct {
	returns []*State
	breaks  map[string][]*State
	conts   map[string][]*State
	results []*types.Var // result variables (named or synthesized)
	fn      *FuncInfo
	lit     *ast.FuncLit
	unwinds []unwound // abrupt exits (panic / runtime.Goexit) of function-value calls made in this frame
}

// unwound: the state at a call through a function value whose contract says may_unwind, taken as the state in
// which that call does not return: the callee panicked (isPanic) or called runtime.Goexit (!isPanic)
type unwound struct {
	st      *State
	isPanic string
}

// unwindCtx: set while the deferred calls of a frame run because of an abrupt exit
type unwindCtx struct {
	isPanic   string
	recovered string // the panic has been stopped by a recover() call (absolute condition)
}

func newVC(p *Program, fn *FuncInfo) *VC {
	vc := &VC{prog: p, fn: fn, declared: map[string]bool{}, sorts: map[Sort]bool{}, counts: map[string]int{},
		baseHeap: map[string]string{}, heapSort: map[string]Sort{}, lazy: map[string]string{}, written: map[string]bool{},
		bound: map[types.Object]Val{}, inputs: map[string]string{}}
	if fn != nil {
		vc.pkg = fn.Pkg.Types
		vc.info = fn.Pkg.TypesInfo
	}
	vc.needSort(SRef)
	return vc
}

func (vc *VC) needSort(s Sort) {
	if s == SBool || s == SReal || s == SInt || s.IsBV() || strings.HasPrefix(string(s), "(") {
		return
	}
	if !vc.sorts[s] {
		vc.sorts[s] = true
		vc.sortList = append(vc.sortList, s)
	}
}

func (vc *VC) freshName(base string) string {
	vc.fresh++
	return quoteName(fmt.Sprintf("%s!%d", base, vc.fresh))
}

func (vc *VC) declare(base string, s Sort) string {
	n := vc.freshName(base)
	vc.decls = append(vc.decls, fmt.Sprintf("(declare-const %s %s)", n, s))
	return n
}

// define introduces a fresh constant equal to term (a conservative extension; unconditional).
func (vc *VC) define(base string, s Sort, term string) string {
	if isAtom(term) || strings.Contains(term, "?") {
		// atoms need no name; terms mentioning a quantifier-bound variable cannot be named globally
		return term
	}
	n := vc.freshName(base)
	vc.decls = append(vc.decls, fmt.Sprintf("(declare-const %s %s)", n, s))
	vc.trace = append(vc.trace, fmt.Sprintf("(assert (= %s %s))", n, term))
	vc.labels = append(vc.labels, "")
	return n
}

func isAtom(t string) bool {
	return !strings.ContainsAny(t, " (") || (strings.HasPrefix(t, "|") && strings.HasSuffix(t, "|") && strings.Count(t, "|") == 2)
}

func (vc *VC) declareFun(name string, args []Sort, res Sort) string {
	n := quoteName(name)
	if !vc.declared[n] {
		vc.declared[n] = true
		var as []string
		for _, a := range args {
			as = append(as, string(a))
		}
		vc.decls = append(vc.decls, fmt.Sprintf("(declare-fun %s (%s) %s)", n, strings.Join(as, " "), res))
	}
	return n
}

// assume adds a path-guarded assumption.
func (vc *VC) assume(st *State, fact string) {
	if fact == "true" {
		return
	}
	// one assertion per conjunct, so that hypothesis pruning works at the granularity of single facts
	for _, c := range flattenGoalFull(fact) {
		if c == "true" {
			continue
		}
		vc.trace = append(vc.trace, fmt.Sprintf("(assert %s)", implies(st.pc, c)))
		vc.labels = append(vc.labels, vc.curLabel)
	}
}

func (vc *VC) axiom(fact string) {
	vc.trace = append(vc.trace, fmt.Sprintf("(assert %s)", fact))
	vc.labels = append(vc.labels, "")
}

// oblige records a proof obligation: under st.pc, goal must hold.
func (vc *VC) oblige(st *State, kind string, clause string, pos token.Pos, goal string, desc string) *Obligation {
	if st.pc == "false" {
		return nil
	}
	fk := vc.lemmaName
	if vc.fn != nil {
		fk = vc.fn.Key
	}
	base := fk + "/" + kind
	if clause != "" {
		base += "." + clause
	}
	vc.counts[base]++
	name := base
	if vc.oracle != nil && autoKinds[kind] {
		// path-split mode: automatically generated obligations are named by source position so that the
		// same site gets the same name on every path
		pk := base + "@" + vc.prog.pos(pos)
		if vc.posCount == nil {
			vc.posCount = map[string]int{}
		}
		vc.posCount[pk]++
		name = pk
		if vc.posCount[pk] > 1 {
			name = fmt.Sprintf("%s.%d", pk, vc.posCount[pk])
		}
	} else if kind == "index" || kind == "nil" || kind == "pre" || kind == "lock" || kind == "div" || kind == "panic" || kind == "blocking" || vc.counts[base] > 1 {
		name = fmt.Sprintf("%s#%d", base, vc.counts[base])
	}
	if goal == "true" {
		// trivially discharged; still recorded so that the obligation exists
	}
	o := &Obligation{Name: name, Func: fk, Kind: kind, Pos: vc.prog.pos(pos), DeclN: len(vc.decls), TraceN: len(vc.trace),
		PC: st.pc, Goal: goal, Desc: desc, vc: vc}
	vc.applySelection(o, kind, clause)
	vc.obls = append(vc.obls, o)
	return o
}

func (vc *VC) query(o *Obligation, model bool) string {
	return vc.queryWith(o, model, "")
}

// queryWith: the query of an obligation with an extra assumption (used for case splits).
func (vc *VC) queryWith(o *Obligation, model bool, extra string) string {
	var b strings.Builder
	b.WriteString("; obligation " + o.Name + " at " + o.Pos + "\n")
	if o.Desc != "" {
		b.WriteString("; " + strings.ReplaceAll(o.Desc, "\n", " ") + "\n")
	}
	b.WriteString("(set-logic ALL)\n")
	for _, s := range vc.sortList {
		b.WriteString(fmt.Sprintf("(declare-sort %s 0)\n", s))
	}
	b.WriteString("(declare-const nil Ref)\n")
	for _, d := range vc.decls {
		b.WriteString(d)
		b.WriteByte('\n')
	}
	for i, t := range vc.trace[:o.TraceN] {
		if l := vc.labels[i]; l != "" && (o.dropLabel(l) || (l == "lockstate" && o.Kind != "lock" && !strings.Contains(o.Goal, "H.lock"))) {
			b.WriteString("; hidden hypothesis [" + l + "]\n")
			continue
		}
		if l := vc.labels[i]; strings.HasPrefix(l, "call.") && strings.Contains(l[strings.LastIndex(l, ".")+1:], "frame_") {
			b.WriteString("; [frame] " + l + "\n")
		}
		b.WriteString(t)
		b.WriteByte('\n')
	}
	b.WriteString(fmt.Sprintf("(assert %s)\n", o.PC))
	if extra != "" {
		b.WriteString(fmt.Sprintf("(assert %s)\n", extra))
	}
	b.WriteString(fmt.Sprintf("(assert (not %s))\n", o.Goal))
	b.WriteString("(check-sat)\n")
	if model {
		b.WriteString("(get-model)\n")
	}
	return b.String()
}

// newPC introduces a named boolean for a path condition to keep terms small.
func (vc *VC) newPC(term string) string {
	if isAtom(term) {
		return term
	}
	return vc.define("pc", SBool, term)
}

// ---- merging -----------------------------------------------------------------------

func (vc *VC) merge(states []*State) *State {
	var live []*State
	for _, s := range states {
		if s != nil && s.pc != "false" {
			live = append(live, s)
		}
	}
	if len(live) == 0 {
		return nil
	}
	if len(live) == 1 {
		return live[0]
	}
	res := live[0]
	for _, s := range live[1:] {
		res = vc.merge2(res, s)
	}
	return res
}

func (vc *VC) merge2(a, b *State) *State {
	n := &State{vars: map[types.Object]Val{}, heap: map[string]string{}}
	n.pc = vc.newPC(or(a.pc, b.pc))
	// variables present in both
	var objs []types.Object
	for k := range a.vars {
		if _, ok := b.vars[k]; ok {
			objs = append(objs, k)
		}
	}
	sort.Slice(objs, func(i, j int) bool {
		if objs[i].Pos() != objs[j].Pos() {
			return objs[i].Pos() < objs[j].Pos()
		}
		return objs[i].Name() < objs[j].Name()
	})
	for _, k := range objs {
		n.vars[k] = vc.mergeVal(a.pc, a.vars[k], b.vars[k], k.Name())
	}
	names := map[string]bool{}
	for k := range a.heap {
		names[k] = true
	}
	for k := range b.heap {
		names[k] = true
	}
	for _, k := range sortedKeys(names) {
		ha, oka := a.heap[k]
		hb, okb := b.heap[k]
		if oka && okb && ha == hb {
			n.heap[k] = ha
			continue
		}
		srt, known := vc.heapSort[k]
		if !known {
			// both lazily havoc'd (or one untouched): stays unknown; keep a fresh lazy marker
			vc.fresh++
			n.heap[k] = fmt.Sprintf("?havoc%d", vc.fresh)
			continue
		}
		ta := vc.heapGet(a, k, srt)
		tb := vc.heapGet(b, k, srt)
		n.heap[k] = vc.define("H."+k, srt, ite(a.pc, ta, tb))
		if n.heap[k] != ta && n.heap[k] != tb && isAtom(n.heap[k]) {
			vc.axiom(eq(vc.vidOf(n.heap[k]), ite(a.pc, vc.vidOf(ta), vc.vidOf(tb))))
		}
	}
	if len(a.defers) != len(b.defers) {
		panic(unsupported("merge of paths with different deferred calls"))
	}
	n.defers = append([]deferred{}, a.defers...)
	return n
}

func (vc *VC) mergeVal(c string, a, b Val, name string) Val {
	switch x := a.(type) {
	case *Scalar:
		y, ok := b.(*Scalar)
		if !ok {
			return a
		}
		if x.T == y.T {
			return x
		}
		if x.S != y.S {
			// a dead local of an inlined generic callee, left over from two different instantiations
			// (DataBlock[V].Write(item V) with V = *StoreMeta and V = int): arbitrary
			return sc(vc.declare(name+".dead", x.S), x.S)
		}
		return sc(vc.define(name, x.S, ite(c, x.T, y.T)), x.S)
	case *SliceV:
		y, ok := b.(*SliceV)
		if !ok {
			return a
		}
		if x.Arr == y.Arr && x.Len == y.Len {
			return x
		}
		return &SliceV{vc.define(name+"#arr", SRef, ite(c, x.Arr, y.Arr)), vc.define(name+"#len", BV(64), ite(c, x.Len, y.Len))}
	case *StructV:
		y, ok := b.(*StructV)
		if !ok {
			return a
		}
		n := &StructV{Names: x.Names, F: map[string]Val{}}
		for _, f := range x.Names {
			n.F[f] = vc.mergeVal(c, x.F[f], y.F[f], name+"."+f)
		}
		return n
	case *TupleV:
		y := b.(*TupleV)
		n := &TupleV{}
		for i := range x.Vs {
			n.Vs = append(n.Vs, vc.mergeVal(c, x.Vs[i], y.Vs[i], name))
		}
		return n
	case *FuncV:
		return a
	}
	return a
}

// ---- fresh values of a type ----------------------------------------------------------

func (vc *VC) freshVal(t types.Type, name string) Val {
	t = vc.ts(t)
	switch classify(t) {
	case kSlice:
		return &SliceV{vc.declare(name+"#arr", SRef), vc.declare(name+"#len", BV(64))}
	case kStruct:
		st := t.Underlying().(*types.Struct)
		sv := &StructV{F: map[string]Val{}}
		for i := 0; i < st.NumFields(); i++ {
			f := st.Field(i)
			if f.Name() == "_" {
				continue
			}
			sv.Names = append(sv.Names, f.Name())
			sv.F[f.Name()] = vc.freshVal(f.Type(), name+"."+f.Name())
		}
		return sv
	}
	s := vc.sortOf(t)
	return sc(vc.declare(name, s), s)
}

func (vc *VC) zeroVal(t types.Type) Val {
	t = vc.ts(t)
	switch classify(t) {
	case kSlice:
		return &SliceV{"nil", bvLit(0, 64)}
	case kStruct:
		st := t.Underlying().(*types.Struct)
		sv := &StructV{F: map[string]Val{}}
		for i := 0; i < st.NumFields(); i++ {
			f := st.Field(i)
			if f.Name() == "_" {
				continue
			}
			sv.Names = append(sv.Names, f.Name())
			sv.F[f.Name()] = vc.zeroVal(f.Type())
		}
		return sv
	}
	s := vc.sortOf(t)
	return sc(vc.zeroTerm(t, s), s)
}

func (vc *VC) zeroTerm(t types.Type, s Sort) string {
	switch {
	case s == SBool:
		return "false"
	case s.IsBV():
		return bvLit(0, s.Width())
	case s == SRef:
		return "nil"
	case s == SF32:
		return "(_ +zero 8 24)"
	case s == SF64:
		return "(_ +zero 11 53)"
	case s == SReal:
		return "0.0"
	case s == SInt:
		return "0"
	}
	// uninterpreted sorts: a distinguished zero constant per sort
	z := quoteName("zero." + string(s))
	if !vc.declared[z] {
		vc.declared[z] = true
		vc.decls = append(vc.decls, fmt.Sprintf("(declare-const %s %s)", z, s))
	}
	return z
}

// applySelection attaches only()/hide() hypothesis selections declared in the function's contract.
func (vc *VC) applySelection(o *Obligation, kind, clause string) {
	if vc.fn == nil {
		return
	}
	specs := []*SpecInfo{vc.fn.Spec}
	for _, l := range vc.fn.Loops {
		specs = append(specs, l)
	}
	for _, si := range specs {
		if si == nil {
			continue
		}
		for _, sel := range si.Selections {
			if sel.Clause == clause || sel.Clause == kind+"."+clause || (strings.HasSuffix(clause, "."+sel.Clause) && strings.HasPrefix(kind, "inv")) {
				if sel.Only {
					o.Only = append(append([]string{}, o.Only...), sel.Labels...)
					if o.Only == nil {
						o.Only = []string{}
					}
				} else {
					o.Hide = append(o.Hide, sel.Labels...)
				}
			}
		}
	}
}

// pathOracle forces branch decisions so that one control-flow path is executed per run (path-split mode).
type pathOracle struct {
	forced []bool
	taken  []bool
}

func (o *pathOracle) next() bool {
	i := len(o.taken)
	c := true
	if i < len(o.forced) {
		c = o.forced[i]
	}
	o.taken = append(o.taken, c)
	return c
}
