package main

// Calls: builtins, the contract DSL, modular calls against specs, inlining, externals, atomics, maps.

import (
	"fmt"
	"go/ast"
	"go/token"
	"go/types"
	"strings"
)

const maxInlineDepth = 12

func (vc *VC) calleeFunc(call *ast.CallExpr) (*types.Func, *types.Selection) {
	fun := unparen(call.Fun)
	switch x := fun.(type) {
	case *ast.IndexExpr:
		fun = x.X
	case *ast.IndexListExpr:
		fun = x.X
	}
	switch x := fun.(type) {
	case *ast.Ident:
		if f, ok := vc.info.ObjectOf(x).(*types.Func); ok {
			return f.Origin(), nil
		}
	case *ast.SelectorExpr:
		if s, ok := vc.info.Selections[x]; ok {
			if f, ok := s.Obj().(*types.Func); ok {
				return f.Origin(), s
			}
			return nil, s
		}
		if f, ok := vc.info.ObjectOf(x.Sel).(*types.Func); ok {
			return f.Origin(), nil
		}
	}
	return nil, nil
}

func funcPkgPath(f *types.Func) string {
	if f.Pkg() == nil {
		return ""
	}
	return f.Pkg().Path()
}

func recvTypeName(f *types.Func) string {
	sig := f.Type().(*types.Signature)
	if sig.Recv() == nil {
		return ""
	}
	t := sig.Recv().Type()
	if p, ok := t.(*types.Pointer); ok {
		t = p.Elem()
	}
	if n, ok := t.(*types.Named); ok {
		return n.Obj().Name()
	}
	return ""
}

func (vc *VC) evalArgs(st *State, call *ast.CallExpr) []Val {
	var out []Val
	for _, a := range call.Args {
		out = append(out, vc.evalAssignable(st, a))
	}
	return out
}

func (vc *VC) evalCall(st *State, call *ast.CallExpr) Val {
	// conversion
	if tv, ok := vc.info.Types[call.Fun]; ok && tv.IsType() {
		v := vc.eval(st, call.Args[0])
		return vc.convert(st, v, vc.typeOf(call.Args[0]), tv.Type)
	}
	// builtins
	if id, ok := unparen(call.Fun).(*ast.Ident); ok {
		if _, ok := vc.info.ObjectOf(id).(*types.Builtin); ok {
			return vc.evalBuiltin(st, id.Name, call)
		}
	}
	fn, selInfo := vc.calleeFunc(call)
	if fn != nil {
		if fi, ok := vc.prog.byObj[fn]; ok && fi.IsSpecFile {
			return vc.evalDSL(st, fi, fn, call)
		}
	}
	// receiver
	var recv Val
	var recvExpr ast.Expr
	if se, ok := unparen(call.Fun).(*ast.SelectorExpr); ok && selInfo != nil && selInfo.Kind() == types.MethodVal {
		recvExpr = se.X
	}
	if fn == nil {
		// call through a function value: field, parameter or local closure
		return vc.callFuncValue(st, call)
	}
	if v, handled := vc.specialCall(st, fn, recvExpr, call); handled {
		return v
	}
	// an ext_ contract overrides the body of a function from another package of the repository
	if fn.Pkg() != nil && fn.Pkg() != vc.pkg {
		if _, ok := vc.prog.ext[extKey(fn)]; ok {
			var recv Val
			if recvExpr != nil {
				recv = vc.evalReceiver(st, recvExpr, fn, selInfo)
			}
			return vc.externalCall(st, fn, recv, vc.evalArgs(st, call), call)
		}
	}
	if recvExpr != nil {
		recv = vc.evalReceiver(st, recvExpr, fn, selInfo)
	}
	args := vc.evalArgs(st, call)
	fi := vc.prog.byObj[fn]
	if fi == nil {
		return vc.externalCall(st, fn, recv, args, call)
	}
	passesClosure := false
	for _, a := range args {
		if fv, ok := a.(*FuncV); ok && fv.Lit != nil {
			passesClosure = true
		}
	}
	if fi.Spec != nil && !(passesClosure && fi.Decl.Body != nil && !fi.Spec.Trusted) {
		vc.callLockCheck(st, fi, recv, call.Pos())
		return vc.callModular(st, fi, fi.Spec, recv, args, call.Pos(), fi.Key)
	}
	// a call that passes a function literal is inlined even if the callee has a contract: the literal's
	// effects are part of this function, and the callee's contract of the parameter would hide them
	sub := vc.typeArgSubst(fn, selInfo, recvExpr)
	vc.tsubst = append(vc.tsubst, sub)
	defer func() { vc.tsubst = vc.tsubst[:len(vc.tsubst)-1] }()
	return vc.inlineCall(st, fi, recv, args, call)
}

// typeArgSubst: for a method of a generic type invoked on a receiver whose type arguments are known, the
// mapping from the method's receiver type parameters to those arguments.
func (vc *VC) typeArgSubst(fn *types.Func, selInfo *types.Selection, recvExpr ast.Expr) map[*types.TypeParam]types.Type {
	sub := map[*types.TypeParam]types.Type{}
	if recvExpr == nil {
		return sub
	}
	rt := vc.typeOf(recvExpr)
	if p, ok := rt.Underlying().(*types.Pointer); ok {
		rt = p.Elem()
	}
	if p, ok := rt.(*types.Pointer); ok {
		rt = p.Elem()
	}
	named, ok := rt.(*types.Named)
	if !ok || named.TypeArgs() == nil {
		return sub
	}
	sig := fn.Origin().Type().(*types.Signature)
	rtps := sig.RecvTypeParams()
	if rtps == nil {
		return sub
	}
	for i := 0; i < rtps.Len() && i < named.TypeArgs().Len(); i++ {
		arg := vc.ts(named.TypeArgs().At(i))
		if atp, ok := arg.(*types.TypeParam); ok && atp == rtps.At(i) {
			continue
		}
		sub[rtps.At(i)] = arg
	}
	return sub
}

// evalReceiver evaluates a method receiver, taking the address of addressable struct values for
// pointer-receiver methods and following embedded fields.
func (vc *VC) evalReceiver(st *State, X ast.Expr, fn *types.Func, selInfo *types.Selection) Val {
	sig := fn.Type().(*types.Signature)
	_, wantPtr := sig.Recv().Type().(*types.Pointer)
	xt := vc.typeOf(X)
	// promoted methods through embedded fields
	if idx := selInfo.Index(); len(idx) > 1 {
		// walk embedded path (all but last index)
		t := xt
		v := vc.eval(st, X)
		for _, fi := range idx[:len(idx)-1] {
			if pt, ok := t.Underlying().(*types.Pointer); ok {
				s := v.(*Scalar)
				vc.nilCheck(st, s.T, X.Pos(), exprString(X))
				p := place{kind: pHeap, ref: s.T, owner: typeKey(pt.Elem()), typ: pt.Elem()}
				f := pt.Elem().Underlying().(*types.Struct).Field(fi)
				v = vc.loadPlace(st, vc.fieldOf(st, p, f))
				t = f.Type()
			} else {
				f := t.Underlying().(*types.Struct).Field(fi)
				v = v.(*StructV).F[f.Name()]
				t = f.Type()
			}
		}
		return v
	}
	_, isPtr := xt.Underlying().(*types.Pointer)
	if wantPtr && !isPtr {
		// implicit &X
		p := vc.resolvePlace(st, X)
		if p.kind == pHeap && p.path == "" {
			return sc(p.ref, SRef)
		}
		return &PtrV{p}
	}
	v := vc.eval(st, X)
	if !wantPtr && isPtr {
		// implicit *X
		s := v.(*Scalar)
		et, _ := derefType(xt)
		return vc.loadPlace(st, place{kind: pHeap, ref: s.T, owner: typeKey(et), typ: et})
	}
	return v
}

// ---- builtins --------------------------------------------------------------------------

func (vc *VC) evalBuiltin(st *State, name string, call *ast.CallExpr) Val {
	switch name {
	case "len", "cap":
		t := vc.typeOf(call.Args[0])
		switch u := t.Underlying().(type) {
		case *types.Slice:
			sv := vc.eval(st, call.Args[0]).(*SliceV)
			if name == "cap" {
				c := vc.declare("cap", BV(64))
				vc.assume(st, and(sx("bvuge", c, sv.Len), sx("bvsge", c, bvLit(0, 64))))
				return sc(c, BV(64))
			}
			return sc(sv.Len, BV(64))
		case *types.Map:
			m := vc.evalScalar(st, call.Args[0])
			h := vc.heapGet(st, "maplen<"+typeKey(u)+">", ArrSort(SRef, BV(64)))
			return sc(sel(h, m.T), BV(64))
		case *types.Array:
			return sc(bvLit(uint64(u.Len()), 64), BV(64))
		case *types.Chan:
			c := vc.declare("chanlen", BV(64))
			return sc(c, BV(64))
		case *types.Basic:
			c := vc.declare("strlen", BV(64))
			vc.assume(st, sx("bvsge", c, bvLit(0, 64)))
			return sc(c, BV(64))
		}
		panic(unsupported("len of %s", t))
	case "make":
		t := vc.typeOf(call.Args[0])
		switch u := t.Underlying().(type) {
		case *types.Slice:
			n := bvLit(0, 64)
			if len(call.Args) > 1 {
				n = vc.evalIndex(st, call.Args[1])
				if !vc.specMode {
					vc.oblige(st, "index", "", call.Pos(), sx("bvsge", n, bvLit(0, 64)), "make: non-negative length (else panic): "+exprString(call))
				}
			}
			arr := vc.alloc(st, "array")
			vc.zeroElems(st, arr, u.Elem())
			return &SliceV{arr, n}
		case *types.Map:
			return vc.newMap(st, u)
		case *types.Chan:
			return sc(vc.alloc(st, "chan"), SRef)
		}
		panic(unsupported("make of %s", t))
	case "new":
		t := vc.typeOf(call.Args[0])
		ref := vc.alloc(st, typeKey(t))
		if classify(t) == kStruct {
			p := place{kind: pHeap, ref: ref, owner: typeKey(t), typ: t}
			vc.initObject(st, p, t, vc.zeroVal(t).(*StructV))
		}
		return sc(ref, SRef)
	case "append":
		return vc.evalAppend(st, call)
	case "delete":
		m := vc.evalScalar(st, call.Args[0])
		k := vc.eval(st, call.Args[1])
		mt := vc.typeOf(call.Args[0]).Underlying().(*types.Map)
		vc.mapDelete(st, m.T, mt, k)
		return &TupleV{}
	case "panic":
		vc.evalArgs(st, call)
		vc.doPanic(st, call.Pos(), "explicit panic")
		return &TupleV{}
	case "min", "max":
		a := vc.evalScalar(st, call.Args[0])
		b := vc.evalScalar(st, call.Args[1])
		signed := signedType(vc.typeOf(call.Args[0]))
		lt := "bvult"
		if signed {
			lt = "bvslt"
		}
		if name == "min" {
			return sc(ite(sx(lt, a.T, b.T), a.T, b.T), a.S)
		}
		return sc(ite(sx(lt, a.T, b.T), b.T, a.T), a.S)
	case "recover":
		r := vc.declare("recovered", SRef)
		if vc.unw != nil {
			// during an abrupt exit: non-nil exactly when a panic is in flight and has not been recovered yet;
			// recovering stops the panic (a Goexit cannot be recovered: recover() returns nil)
			active := and(vc.unw.isPanic, not(vc.unw.recovered))
			vc.assume(st, eq(eq(r, "nil"), not(active)))
			vc.unw.recovered = vc.define("unw.recovered", SBool, or(vc.unw.recovered, and(st.pc, active)))
		}
		return sc(r, SRef)
	case "close":
		vc.evalArgs(st, call)
		return &TupleV{}
	}
	panic(unsupported("builtin %s", name))
}

func (vc *VC) doPanic(st *State, pos token.Pos, what string) {
	if vc.fn != nil && vc.fn.Spec != nil && vc.fn.Spec.Flags["may_panic"] {
		// declared: the path ends here; postconditions named always_* must hold on this exit too
		if !vc.specMode && vc.dry == 0 && vc.callDepth == 0 || (!vc.specMode && vc.dry == 0 && vc.panicPosts) {
			b := vc.bindSpec(vc.fn.Spec, vc.specRecv, vc.specArgs, nil)
			for _, c := range vc.fn.Spec.Clauses {
				if c.Kind == "ensures" && strings.HasPrefix(c.Name, "always_") {
					t := vc.evalClause(st, vc.fn.Spec, c.Expr, vc.entry)
					vc.oblige(st, "post", c.Name+".onpanic", c.Pos, t, "postcondition "+c.Name+" on the panicking exit")
				}
			}
			vc.unbind(b)
		}
	} else if !vc.specMode {
		vc.oblige(st, "panic", "", pos, "false", what+" must be unreachable")
	}
	st.pc = "false"
}

func (vc *VC) zeroElems(st *State, arr string, elem types.Type) {
	var ls []leaf
	leavesOf(elem, "", &ls)
	for _, l := range ls {
		if l.slice {
			vc.zeroElemLeaf(st, arr, typeKey(elem)+l.path+"#arr", SRef, "nil")
			vc.zeroElemLeaf(st, arr, typeKey(elem)+l.path+"#len", BV(64), bvLit(0, 64))
			continue
		}
		s := vc.sortOf(l.typ)
		vc.zeroElemLeaf(st, arr, typeKey(elem)+l.path, s, vc.zeroTerm(l.typ, s))
	}
}

func (vc *VC) zeroElemLeaf(st *State, arr string, key string, s Sort, zero string) {
	name := "elems<" + key + ">"
	hs := ArrSort(SRef, ArrSort(BV(64), s))
	h := vc.heapGet(st, name, hs)
	vc.heapSet(st, name, hs, store(h, arr, fmt.Sprintf("((as const %s) %s)", ArrSort(BV(64), s), zero)))
}

func (vc *VC) evalAppend(st *State, call *ast.CallExpr) Val {
	sv := vc.eval(st, call.Args[0]).(*SliceV)
	if call.Ellipsis.IsValid() {
		panic(unsupported("append with ..."))
	}
	et := vc.typeOf(call.Args[0]).Underlying().(*types.Slice).Elem()
	// Go may reallocate: the result array is either the old one or a fresh copy. Either way the
	// first len elements are preserved. We model the result as a fresh array that copies the prefix
	// (sound when the old slice value is not used again, which holds for x = append(x, ...)).
	arr := vc.alloc(st, "array")
	var ls []leaf
	leavesOf(et, "", &ls)
	for _, l := range ls {
		subs := []struct {
			suf string
			s   Sort
		}{}
		if l.slice {
			subs = append(subs, struct {
				suf string
				s   Sort
			}{"#arr", SRef}, struct {
				suf string
				s   Sort
			}{"#len", BV(64)})
		} else {
			subs = append(subs, struct {
				suf string
				s   Sort
			}{"", vc.sortOf(l.typ)})
		}
		for _, sb := range subs {
			name := "elems<" + typeKey(et) + l.path + sb.suf + ">"
			hs := ArrSort(SRef, ArrSort(BV(64), sb.s))
			h := vc.heapGet(st, name, hs)
			vc.heapSet(st, name, hs, store(h, arr, sel(h, sv.Arr)))
		}
	}
	n := sv.Len
	for _, a := range call.Args[1:] {
		v := vc.evalAssignable(st, a)
		p := place{kind: pElem, arr: arr, idx: n, ekey: typeKey(et), typ: et}
		vc.storePlace(st, p, v)
		n = sx("bvadd", n, bvLit(1, 64))
	}
	return &SliceV{arr, n}
}

// ---- maps ------------------------------------------------------------------------------------

func (vc *VC) mapHeaps(mt *types.Map) (dom, val, ln string, ks, vs Sort) {
	k := typeKey(mt)
	ks = vc.sortOf(mt.Key())
	vs = vc.sortOf(mt.Elem())
	return "mapdom<" + k + ">", "mapval<" + k + ">", "maplen<" + k + ">", ks, vs
}

func (vc *VC) newMap(st *State, mt *types.Map) Val {
	dom, _, ln, ks, _ := vc.mapHeaps(mt)
	r := vc.alloc(st, "map")
	hd := vc.heapGet(st, dom, ArrSort(SRef, ArrSort(ks, SBool)))
	vc.heapSet(st, dom, ArrSort(SRef, ArrSort(ks, SBool)), store(hd, r, fmt.Sprintf("((as const %s) false)", ArrSort(ks, SBool))))
	hl := vc.heapGet(st, ln, ArrSort(SRef, BV(64)))
	vc.heapSet(st, ln, ArrSort(SRef, BV(64)), store(hl, r, bvLit(0, 64)))
	return sc(r, SRef)
}

func (vc *VC) mapLookup(st *State, m string, mt *types.Map, key Val) (val string, ok string, vs Sort) {
	dom, vl, _, ks, vs := vc.mapHeaps(mt)
	k := key.(*Scalar).T
	vc.mapAccessHook(st, m, mt, false)
	hd := vc.heapGet(st, dom, ArrSort(SRef, ArrSort(ks, SBool)))
	hv := vc.heapGet(st, vl, ArrSort(SRef, ArrSort(ks, vs)))
	ok = sel(sel(hd, m), k)
	val = ite(ok, sel(sel(hv, m), k), vc.zeroTerm(mt.Elem(), vs))
	if vs == SRef && vc.prog.mapValsNonNil[typeKey(mt)] && !strings.Contains(k, "?") {
		vc.assume(st, implies(ok, not(eq(sel(sel(hv, m), k), "nil"))))
	}
	return
}

func (vc *VC) mapRead(st *State, p place) Val {
	v, _, vs := vc.mapLookup(st, p.ref, p.mtyp, p.key)
	return sc(v, vs)
}

func (vc *VC) mapWrite(st *State, p place, v Val) {
	dom, vl, ln, ks, vs := vc.mapHeaps(p.mtyp)
	k := p.key.(*Scalar).T
	vc.mapAccessHook(st, p.ref, p.mtyp, true)
	if !vc.specMode {
		vc.oblige(st, "nil", "", token.NoPos, not(eq(p.ref, "nil")), "assignment to entry in nil map")
	}
	hd := vc.heapGet(st, dom, ArrSort(SRef, ArrSort(ks, SBool)))
	hv := vc.heapGet(st, vl, ArrSort(SRef, ArrSort(ks, vs)))
	hl := vc.heapGet(st, ln, ArrSort(SRef, BV(64)))
	was := sel(sel(hd, p.ref), k)
	vc.heapSet(st, ln, ArrSort(SRef, BV(64)), store(hl, p.ref, ite(was, sel(hl, p.ref), sx("bvadd", sel(hl, p.ref), bvLit(1, 64)))))
	vc.heapSet(st, dom, ArrSort(SRef, ArrSort(ks, SBool)), store(hd, p.ref, store(sel(hd, p.ref), k, "true")))
	vc.heapSet(st, vl, ArrSort(SRef, ArrSort(ks, vs)), store(hv, p.ref, store(sel(hv, p.ref), k, v.(*Scalar).T)))
}

func (vc *VC) mapDelete(st *State, m string, mt *types.Map, key Val) {
	dom, _, ln, ks, _ := vc.mapHeaps(mt)
	k := key.(*Scalar).T
	vc.mapAccessHook(st, m, mt, true)
	hd := vc.heapGet(st, dom, ArrSort(SRef, ArrSort(ks, SBool)))
	hl := vc.heapGet(st, ln, ArrSort(SRef, BV(64)))
	was := sel(sel(hd, m), k)
	vc.heapSet(st, ln, ArrSort(SRef, BV(64)), store(hl, m, ite(was, sx("bvsub", sel(hl, m), bvLit(1, 64)), sel(hl, m))))
	vc.heapSet(st, dom, ArrSort(SRef, ArrSort(ks, SBool)), store(hd, m, store(sel(hd, m), k, "false")))
}

// ---- DSL ----------------------------------------------------------------------------------------

func (vc *VC) evalDSL(st *State, fi *FuncInfo, fn *types.Func, call *ast.CallExpr) Val {
	name := fn.Name()
	switch {
	case name == "old":
		if vc.oldState == nil {
			panic(unsupported("old() outside a two-state context"))
		}
		save := vc.oldState
		o := vc.oldState.clone()
		o.pc = st.pc
		// parameters/bound variables resolve through vc.bound; locals of a loop spec resolve in st
		for k, v := range st.vars {
			if _, ok := o.vars[k]; !ok {
				o.vars[k] = v
			}
		}
		savedBound := map[types.Object]Val{}
		for k, ev := range vc.loopOld {
			if cur, ok := vc.bound[k]; ok {
				savedBound[k] = cur
				vc.bound[k] = ev
			}
		}
		v := vc.eval(o, call.Args[0])
		for k, cur := range savedBound {
			vc.bound[k] = cur
		}
		vc.oldState = save
		return v
	case name == "all" || name == "ex":
		lit, ok := call.Args[0].(*ast.FuncLit)
		if !ok {
			panic(unsupported("quantifier needs a function literal"))
		}
		var binders []string
		for _, f := range lit.Type.Params.List {
			for _, n := range f.Names {
				obj := vc.info.ObjectOf(n)
				s := vc.sortOf(obj.Type())
				vc.fresh++
				bn := quoteName(fmt.Sprintf("%s?%d", n.Name, vc.fresh))
				vc.bound[obj] = sc(bn, s)
				binders = append(binders, fmt.Sprintf("(%s %s)", bn, s))
			}
		}
		body := vc.evalPureBody(st, lit.Body)
		q := "forall"
		if name == "ex" {
			q = "exists"
		}
		bs := body.(*Scalar).T
		return sc(fmt.Sprintf("(%s (%s) %s)", q, strings.Join(binders, " "), bs), SBool)
	case name == "upto" || name == "anyof":
		// bounded quantifier, unrolled: upto(n, func(i T) bool) = body(0) && ... && body(n-1)
		nv, ok := vc.info.Types[call.Args[0]]
		if !ok || nv.Value == nil {
			panic(unsupported("upto/anyof need a constant bound"))
		}
		n, _ := constantInt(nv)
		lit, ok := call.Args[1].(*ast.FuncLit)
		if !ok {
			panic(unsupported("upto/anyof need a function literal"))
		}
		pn := lit.Type.Params.List[0].Names[0]
		obj := vc.info.ObjectOf(pn)
		srt := vc.sortOf(obj.Type())
		var parts []string
		for i := 0; i < n; i++ {
			vc.bound[obj] = sc(bvLit(uint64(i), srt.Width()), srt)
			parts = append(parts, vc.evalPureBody(st, lit.Body).(*Scalar).T)
		}
		delete(vc.bound, obj)
		if name == "upto" {
			return sc(and(parts...), SBool)
		}
		return sc(or(parts...), SBool)
	case name == "imp":
		a := vc.evalBool(st, call.Args[0])
		b := vc.evalBool(st, call.Args[1])
		return sc(implies(a, b), SBool)
	case name == "iff":
		a := vc.evalBool(st, call.Args[0])
		b := vc.evalBool(st, call.Args[1])
		return sc(eq(a, b), SBool)
	case name == "ifelse":
		c := vc.evalBool(st, call.Args[0])
		a := vc.evalScalar(st, call.Args[1])
		b := vc.evalScalar(st, call.Args[2])
		return sc(ite(c, a.T, b.T), a.S)
	case name == "wsum" || name == "card":
		l := vc.evalScalar(st, call.Args[0])
		vc.finsumAxioms()
		mem := sel(vc.heapGet(st, "gh.po_in", ArrSort(SRef, ArrSort(SRef, SBool))), l.T)
		if name == "card" {
			return sc(sx("fs.card", mem), BV(64))
		}
		w := vc.heapGet(st, "Entry.policyWeight", ArrSort(SRef, BV(64)))
		return sc(sx("fs.sum", mem, w), BV(64))
	case name == "same":
		return sc(vc.valEq(vc.eval(st, call.Args[0]), vc.eval(st, call.Args[1])), SBool)
	case name == "has":
		m := vc.evalScalar(st, call.Args[0])
		k := vc.evalScalar(st, call.Args[1])
		mt := vc.typeOf(call.Args[0]).Underlying().(*types.Map)
		dom, _, _, ks, _ := vc.mapHeaps(mt)
		hd := vc.heapGet(st, dom, ArrSort(SRef, ArrSort(ks, SBool)))
		return sc(sel(sel(hd, m.T), k.T), SBool)
	case name == "heldPolicy":
		return sc(vc.anyHeld(st, "Store.policyMu", false), SBool)
	case name == "goexited":
		// true on the exit taken when a function value called by this function ended in runtime.Goexit
		if vc.goexitTerm != "" {
			return sc(vc.goexitTerm, SBool)
		}
		return sc("false", SBool)
	case name == "heldShard":
		return sc(vc.anyHeld(st, "RBMutex", false), SBool)
	case name == "heldShardR":
		return sc(vc.anyHeld(st, "RBMutex", true), SBool)
	case name == "loaded":
		// loaded(x.f.Load()): the value this goroutine last loaded from the atomic field x.f in the function under
		// verification (arbitrary if it never did)
		lc, ok := unparen(call.Args[0]).(*ast.CallExpr)
		if !ok {
			panic(unsupported("loaded() expects an atomic Load call"))
		}
		se, ok := unparen(lc.Fun).(*ast.SelectorExpr)
		if !ok || se.Sel.Name != "Load" {
			panic(unsupported("loaded() expects an atomic Load call"))
		}
		p := vc.resolvePlace(st, se.X)
		as, _ := isAtomicType(p.typ)
		if p.kind != pHeap || as == "" || !lastLoadTracked[p.owner+p.path] {
			panic(unsupported("loaded() of a field whose loads are not tracked"))
		}
		srt := ArrSort(SRef, Sort(as))
		return sc(sel(vc.heapGet(st, "gh.lastload<"+p.owner+p.path+">", srt), p.ref), Sort(as))
	case name == "heldToken":
		return sc(vc.heapGet(st, "gh.token", SBool), SBool)
	case name == "owned":
		x := vc.evalScalar(st, call.Args[0])
		return sc(sel(vc.heapGet(st, "gh.owned", ArrSort(SRef, SBool)), x.T), SBool)
	case name == "held" || name == "heldR":
		return sc(vc.lockHeld(st, call.Args[0], name == "heldR"), SBool)
	case name == "fresh":
		// fresh(x): x was not allocated at function entry
		var rt string
		switch x := vc.eval(st, call.Args[0]).(type) {
		case *Scalar:
			rt = x.T
		case *SliceV:
			rt = x.Arr
		default:
			panic(unsupported("fresh() of %T", x))
		}
		if vc.oldState == nil {
			panic(unsupported("fresh() outside a two-state context"))
		}
		al := vc.heapGet(vc.oldState, "alloc", ArrSort(SRef, SBool))
		return sc(and(not(eq(rt, "nil")), not(sel(al, rt))), SBool)
	case hasPfx(name, "gh_"):
		return vc.ghostRead(st, fn, call)
	case hasPfx(name, "op_"):
		args := vc.evalArgs(st, call)
		return vc.evalOpaque(st, fi, args, call)
	case hasPfx(name, "sp_") || strings.HasPrefix(name, "uf_") || strings.HasPrefix(name, "atominv_") || strings.HasPrefix(name, "moninv_"):
		args := vc.evalArgs(st, call)
		return vc.evalPure(st, fi, args, call)
	case name == "rint":
		v := vc.evalScalar(st, call.Args[0])
		return vc.convert(st, v, vc.typeOf(call.Args[0]), fn.Type().(*types.Signature).Results().At(0).Type())
	}
	panic(unsupported("DSL function %s in expression position", name))
}

// evalPure evaluates a pure spec function by unfolding its body (if/return chains only).
// uf_ functions with no body are uninterpreted.
func (vc *VC) evalPure(st *State, fi *FuncInfo, args []Val, call *ast.CallExpr) Val {
	sig := fi.Obj.Type().(*types.Signature)
	if strings.HasPrefix(fi.Obj.Name(), "uf_") {
		var as []Sort
		var ts []string
		for i, a := range args {
			s := a.(*Scalar)
			as = append(as, s.S)
			ts = append(ts, s.T)
			_ = i
		}
		rs := vc.sortOf(sig.Results().At(0).Type())
		f := vc.declareFun("uf."+fi.Obj.Name(), as, rs)
		if len(ts) == 0 {
			return sc(f, rs)
		}
		return sc(sx(f, ts...), rs)
	}
	if vc.callDepth > 40 {
		panic(unsupported("pure function recursion too deep: %s", fi.Key))
	}
	saveBound := map[types.Object]Val{}
	var objs []types.Object
	i := 0
	for _, f := range fi.Decl.Type.Params.List {
		for _, n := range f.Names {
			obj := fi.Pkg.TypesInfo.ObjectOf(n)
			objs = append(objs, obj)
			if old, ok := vc.bound[obj]; ok {
				saveBound[obj] = old
			}
			vc.bound[obj] = args[i]
			i++
		}
	}
	saveInfo := vc.info
	vc.info = fi.Pkg.TypesInfo
	vc.callDepth++
	v := vc.evalPureBody(st, fi.Decl.Body)
	vc.callDepth--
	vc.info = saveInfo
	for _, o := range objs {
		if old, ok := saveBound[o]; ok {
			vc.bound[o] = old
		} else {
			delete(vc.bound, o)
		}
	}
	return v
}

// evalPureBody: { [x := e;]* [if c { return a }]* return b }
func (vc *VC) evalPureBody(st *State, body *ast.BlockStmt) Val {
	return vc.evalPureStmts(st, body.List)
}

func (vc *VC) evalPureStmts(st *State, list []ast.Stmt) Val {
	if len(list) == 0 {
		panic(unsupported("pure body without return"))
	}
	switch s := list[0].(type) {
	case *ast.ReturnStmt:
		if len(s.Results) != 1 {
			panic(unsupported("pure function must return one value"))
		}
		return vc.eval(st, s.Results[0])
	case *ast.IfStmt:
		c := vc.evalBool(st, s.Cond)
		if c == "true" {
			return vc.evalPureStmts(st, s.Body.List)
		}
		var a Val
		if c != "false" {
			a = vc.evalPureStmts(st, s.Body.List)
		}
		var rest []ast.Stmt
		if s.Else != nil {
			if eb, ok := s.Else.(*ast.BlockStmt); ok {
				rest = eb.List
			} else {
				rest = []ast.Stmt{s.Else}
			}
		} else {
			rest = list[1:]
		}
		b := vc.evalPureStmts(st, rest)
		if c == "false" {
			return b
		}
		as, bs := a.(*Scalar), b.(*Scalar)
		return sc(ite(c, as.T, bs.T), as.S)
	case *ast.AssignStmt:
		if s.Tok == token.DEFINE && len(s.Lhs) == 1 && len(s.Rhs) == 1 {
			obj := vc.info.ObjectOf(s.Lhs[0].(*ast.Ident))
			v := vc.eval(st, s.Rhs[0])
			if svv, ok := v.(*Scalar); ok {
				v = sc(vc.defineIfClosed("let", svv.S, svv.T), svv.S)
			}
			vc.bound[obj] = v
			r := vc.evalPureStmts(st, list[1:])
			delete(vc.bound, obj)
			return r
		}
	}
	panic(unsupported("statement %T in pure function", list[0]))
}

// defineIfClosed introduces a definition unless the term mentions a quantifier-bound variable.
func (vc *VC) defineIfClosed(base string, s Sort, term string) string {
	if strings.Contains(term, "?") {
		return term
	}
	return vc.define(base, s, term)
}

// ghost functions: state-dependent uninterpreted functions stored as (curried) arrays in the heap.
func (vc *VC) ghostHeap(fn *types.Func) (name string, sorts []Sort, res Sort, hs Sort) {
	sig := fn.Type().(*types.Signature)
	for i := 0; i < sig.Params().Len(); i++ {
		sorts = append(sorts, vc.sortOf(sig.Params().At(i).Type()))
	}
	res = vc.sortOf(sig.Results().At(0).Type())
	hs = res
	for i := len(sorts) - 1; i >= 0; i-- {
		hs = ArrSort(sorts[i], hs)
	}
	return "gh." + lowerFirst(fn.Name())[3:], sorts, res, hs
}

func (vc *VC) ghostRead(st *State, fn *types.Func, call *ast.CallExpr) Val {
	name, _, res, hs := vc.ghostHeap(fn)
	t := vc.heapGet(st, name, hs)
	for _, a := range call.Args {
		t = sel(t, vc.evalScalar(st, a).T)
	}
	return sc(t, res)
}

func (vc *VC) ghostWrite(st *State, target *ast.CallExpr, val string) {
	fn, _ := vc.calleeFunc(target)
	name, _, _, hs := vc.ghostHeap(fn)
	h := vc.heapGet(st, name, hs)
	var idx []string
	for _, a := range target.Args {
		idx = append(idx, vc.evalScalar(st, a).T)
	}
	vc.heapSet(st, name, hs, nestedStore(h, idx, val))
}

func nestedStore(arr string, idx []string, val string) string {
	if len(idx) == 0 {
		return val
	}
	return store(arr, idx[0], nestedStore(sel(arr, idx[0]), idx[1:], val))
}

// ---- modular call ---------------------------------------------------------------------------------

type specBinding struct {
	objs []types.Object
	old  map[types.Object]Val
}

func specParamObjs(si *SpecInfo) (recv types.Object, params []types.Object, results []types.Object) {
	info := si.Pkg.TypesInfo
	if si.Decl.Recv != nil && len(si.Decl.Recv.List) > 0 && len(si.Decl.Recv.List[0].Names) > 0 {
		recv = info.ObjectOf(si.Decl.Recv.List[0].Names[0])
	}
	for _, f := range si.Decl.Type.Params.List {
		for _, n := range f.Names {
			params = append(params, info.ObjectOf(n))
		}
	}
	if si.Decl.Type.Results != nil {
		for _, f := range si.Decl.Type.Results.List {
			for _, n := range f.Names {
				results = append(results, info.ObjectOf(n))
			}
		}
	}
	return
}

func (vc *VC) bindSpec(si *SpecInfo, recv Val, args []Val, results []Val) *specBinding {
	r, ps, rs := specParamObjs(si)
	b := &specBinding{old: map[types.Object]Val{}}
	set := func(o types.Object, v Val) {
		if o == nil || v == nil {
			return
		}
		if old, ok := vc.bound[o]; ok {
			b.old[o] = old
		}
		vc.bound[o] = v
		b.objs = append(b.objs, o)
	}
	set(r, recv)
	for i, p := range ps {
		if i < len(args) {
			set(p, args[i])
		}
	}
	for i, p := range rs {
		if i < len(results) {
			set(p, results[i])
		}
	}
	return b
}

func (vc *VC) unbind(b *specBinding) {
	for _, o := range b.objs {
		if old, ok := b.old[o]; ok {
			vc.bound[o] = old
		} else {
			delete(vc.bound, o)
		}
	}
}

// evalClause evaluates a contract clause expression in spec mode.
func (vc *VC) evalClause(st *State, si *SpecInfo, e ast.Expr, old *State) string {
	saveInfo, saveMode, saveOld := vc.info, vc.specMode, vc.oldState
	vc.info, vc.specMode, vc.oldState = si.Pkg.TypesInfo, true, old
	defer func() { vc.info, vc.specMode, vc.oldState = saveInfo, saveMode, saveOld }()
	return vc.evalBool(st, e)
}

func (vc *VC) callModular(st *State, fi *FuncInfo, si *SpecInfo, recv Val, args []Val, pos token.Pos, key string) Val {
	var sig *types.Signature
	if fi != nil {
		sig = fi.Obj.Type().(*types.Signature)
	} else {
		sig = si.Obj.Type().(*types.Signature)
	}
	// preconditions
	b := vc.bindSpec(si, recv, args, nil)
	for _, c := range si.Clauses {
		if c.Kind == "requires" {
			t := vc.evalClause(st, si, c.Expr, st)
			vc.oblige(st, "pre", key+"."+c.Name, pos, t, "precondition "+c.Name+" of "+key)
		}
	}
	vc.unbind(b)
	pre := st.clone()
	// frame: havoc what the callee may modify
	mods := vc.modsOf(fi, si, recv, args)
	effTargets := map[string]bool{}
	if len(si.Effects) > 0 {
		for _, g := range vc.effectTargets(si) {
			effTargets[g] = true
		}
	}
	touched := vc.touchedObjects(st, si, recv, args)
	quiet := vc.quietHeaps(st, si, recv, args, true)
	for _, m := range mods {
		if quiet[m] {
			continue // quietunless(cond, heaps...): cond is false at this call, the heap is untouched (frame.quiet.<heap>)
		}
		if isLockHeap(m) {
			continue // callee returns with the lock state it was entered with (lock.balanced)
		}
		if effTargets[m] {
			continue // updated below by executing the contract's ghost effects
		}
		if refs, ok := touched[m]; ok {
			// object-granular frame (`touches` clause, proved in the callee as obligation frame.<heap>):
			// only the named objects' slots of this field array change
			srt, known := vc.heapSort[m]
			if known && strings.HasPrefix(string(srt), "(Array Ref ") {
				es := Sort(strings.TrimSuffix(strings.TrimPrefix(string(srt), "(Array Ref "), ")"))
				t := vc.heapGet(st, m, srt)
				for _, r := range refs {
					t = store(t, r, vc.declare("touched."+m, es))
				}
				vc.heapSet(st, m, srt, t)
				continue
			}
		}
		vc.havocHeap(st, m)
	}
	if vc.written["alloc"] {
		// allocation only grows
		if contains(mods, "alloc") {
			a0 := vc.heapGet(pre, "alloc", ArrSort(SRef, SBool))
			a1 := vc.heapGet(st, "alloc", ArrSort(SRef, SBool))
			vc.assume(st, fmt.Sprintf("(forall ((r Ref)) (=> (select %s r) (select %s r)))", a0, a1))
		}
	}
	// results
	var results []Val
	for i := 0; i < sig.Results().Len(); i++ {
		rv := vc.freshVal(sig.Results().At(i).Type(), "ret."+lastPart(key))
		results = append(results, rv)
		if s, ok := rv.(*Scalar); ok && s.S == SRef {
			vc.assumeAllocated(st, s.T)
		}
	}
	b = vc.bindSpec(si, recv, args, results)
	if len(si.Effects) > 0 {
		// the callee's ghost effects, applied to the caller's ghost state (old() = state before the call)
		vc.runEffects(st, si, pre)
	}
	for _, c := range si.Clauses {
		if c.Kind == "ensures" || c.Kind == "assumes" {
			t := vc.evalClause(st, si, c.Expr, pre)
			save := vc.curLabel
			if save == "" {
				vc.curLabel = "call." + key + "." + c.Name
			}
			vc.assume(st, t)
			vc.curLabel = save
		}
	}
	vc.unbind(b)
	if si.Flags["noreturn"] {
		st.pc = "false"
	}
	switch len(results) {
	case 0:
		return &TupleV{}
	case 1:
		return results[0]
	}
	return &TupleV{results}
}

func lastPart(k string) string {
	if i := strings.LastIndex(k, "."); i >= 0 {
		return k[i+1:]
	}
	return k
}

func contains(xs []string, x string) bool {
	for _, y := range xs {
		if x == y {
			return true
		}
	}
	return false
}

// modsOf: the heap arrays a callee may modify: declared by modifies clauses, else inferred by
// verifying (symbolically executing) the callee first.
func (vc *VC) modsOf(fi *FuncInfo, si *SpecInfo, recv Val, args []Val) []string {
	declared := vc.declaredMods(si, recv, args)
	if fi == nil || fi.Decl == nil || fi.Decl.Body == nil || si.Trusted {
		return declared
	}
	r := vc.prog.verifyFunc(fi)
	if r.Err != nil {
		panic(unsupported("callee %s cannot be analysed: %v", fi.Key, r.Err))
	}
	return r.Mods
}

func (vc *VC) declaredMods(si *SpecInfo, recv Val, args []Val) []string {
	set := map[string]bool{}
	for _, c := range si.Clauses {
		if c.Kind != "modifies" {
			continue
		}
		for _, a := range c.Args {
			if bl, ok := a.(*ast.BasicLit); ok && bl.Kind == token.STRING {
				set[strings.Trim(bl.Value, "\"`")] = true
				continue
			}
			// expression denoting a location: resolve in a scratch state
			scratch := &State{vars: map[types.Object]Val{}, heap: map[string]string{}, pc: "false"}
			b := vc.bindSpecFresh(si)
			saveInfo, saveMode := vc.info, vc.specMode
			vc.info, vc.specMode = si.Pkg.TypesInfo, true
			nObl := len(vc.obls)
			if call, ok := a.(*ast.CallExpr); ok {
				if fn, _ := vc.calleeFunc(call); fn != nil && hasPfx(fn.Name(), "gh_") {
					n, _, _, _ := vc.ghostHeap(fn)
					set[n] = true
					vc.info, vc.specMode = saveInfo, saveMode
					vc.unbind(b)
					continue
				}
			}
			p := vc.resolvePlace(scratch, a)
			vc.obls = vc.obls[:nObl]
			vc.info, vc.specMode = saveInfo, saveMode
			vc.unbind(b)
			for _, n := range vc.placeHeapNames(p) {
				set[n] = true
			}
		}
	}
	return sortedKeys(set)
}

func (vc *VC) bindSpecFresh(si *SpecInfo) *specBinding {
	r, ps, rs := specParamObjs(si)
	var recv Val
	if r != nil {
		recv = vc.freshVal(r.Type(), "m.recv")
	}
	var args, res []Val
	for _, p := range ps {
		args = append(args, vc.freshVal(p.Type(), "m."+p.Name()))
	}
	for _, p := range rs {
		res = append(res, vc.freshVal(p.Type(), "m."+p.Name()))
	}
	return vc.bindSpec(si, recv, args, res)
}

func (vc *VC) placeHeapNames(p place) []string {
	var out []string
	if p.kind == pMap {
		d, v, l, _, _ := vc.mapHeaps(p.mtyp)
		return []string{d, v, l}
	}
	var ls []leaf
	leavesOf(p.typ, "", &ls)
	for _, l := range ls {
		sufs := []string{""}
		if l.slice {
			sufs = []string{"#arr", "#len"}
		}
		for _, sf := range sufs {
			switch p.kind {
			case pHeap:
				out = append(out, p.owner+p.path+l.path+sf)
			case pElem:
				out = append(out, "elems<"+p.ekey+p.path+l.path+sf+">")
			case pGlobal:
				out = append(out, "glob."+p.name+p.path+l.path+sf)
			}
		}
	}
	return out
}

// ---- inlining -----------------------------------------------------------------------------------------

func (vc *VC) inlineCall(st *State, fi *FuncInfo, recv Val, args []Val, call *ast.CallExpr) Val {
	if fi.Decl.Body == nil {
		panic(unsupported("call to %s: no body and no contract", fi.Key))
	}
	if vc.callDepth >= maxInlineDepth {
		panic(unsupported("inlining too deep at %s (recursion?)", fi.Key))
	}
	for _, f := range vc.frames {
		if f.fn == fi {
			panic(unsupported("recursive call to %s needs a contract", fi.Key))
		}
	}
	return vc.runBody(st, fi, nil, fi.Decl.Type, fi.Decl.Recv, fi.Decl.Body, fi.Pkg.TypesInfo, recv, args)
}

// runBody executes a function or closure body in the current state (used for inlining).
func (vc *VC) runBody(st *State, fi *FuncInfo, lit *ast.FuncLit, ftype *ast.FuncType, recvList *ast.FieldList, body *ast.BlockStmt,
	info *types.Info, recv Val, args []Val) Val {
	saveInfo := vc.info
	vc.info = info
	vc.callDepth++
	defer func() { vc.info = saveInfo; vc.callDepth-- }()

	fr := &frame{breaks: map[string][]*State{}, conts: map[string][]*State{}, fn: fi, lit: lit}
	// bind parameters
	if recvList != nil && len(recvList.List) > 0 && len(recvList.List[0].Names) > 0 {
		st.vars[info.ObjectOf(recvList.List[0].Names[0])] = recv
	}
	i := 0
	for _, f := range ftype.Params.List {
		if len(f.Names) == 0 {
			i++
			continue
		}
		for _, n := range f.Names {
			if i < len(args) {
				st.vars[info.ObjectOf(n)] = args[i]
			}
			i++
		}
	}
	// results
	if ftype.Results != nil {
		for _, f := range ftype.Results.List {
			t := vc.ts(info.TypeOf(f.Type))
			if len(f.Names) == 0 {
				v := types.NewVar(token.NoPos, vc.pkg, "ret$", t)
				fr.results = append(fr.results, v)
				st.vars[v] = vc.zeroVal(t)
				continue
			}
			for _, n := range f.Names {
				obj := info.ObjectOf(n).(*types.Var)
				fr.results = append(fr.results, obj)
				st.vars[obj] = vc.zeroVal(t)
			}
		}
	}
	savedDefers := st.defers
	st.defers = nil
	vc.frames = append(vc.frames, fr)
	end := vc.execBlock(st.clone(), body.List)
	if end != nil {
		// falling off the end: run defers
		vc.runDefers(end)
		fr.returns = append(fr.returns, end)
	}
	vc.processUnwinds(fr, savedDefers)
	vc.frames = vc.frames[:len(vc.frames)-1]
	m := vc.merge(fr.returns)
	if m == nil {
		st.pc = "false"
		st.defers = savedDefers
		return vc.deadResult(fr)
	}
	st.vars, st.heap, st.pc = m.vars, m.heap, m.pc
	st.defers = savedDefers
	var rs []Val
	for _, r := range fr.results {
		rs = append(rs, st.vars[r])
	}
	switch len(rs) {
	case 0:
		return &TupleV{}
	case 1:
		return rs[0]
	}
	return &TupleV{rs}
}

func (vc *VC) deadResult(fr *frame) Val {
	var rs []Val
	for _, r := range fr.results {
		rs = append(rs, vc.zeroVal(r.Type()))
	}
	switch len(rs) {
	case 0:
		return &TupleV{}
	case 1:
		return rs[0]
	}
	return &TupleV{rs}
}

// callFuncValue: call through a field, parameter or local holding a function.
func (vc *VC) callFuncValue(st *State, call *ast.CallExpr) Val {
	fun := unparen(call.Fun)
	// immediately-invoked or local closure
	if lit, ok := fun.(*ast.FuncLit); ok {
		args := vc.evalArgs(st, call)
		return vc.runBody(st, nil, lit, lit.Type, nil, lit.Body, vc.info, nil, args)
	}
	// contract on a func-typed field: fspec_<field> on the owner type
	if se, ok := fun.(*ast.SelectorExpr); ok {
		if selInfo, ok := vc.info.Selections[se]; ok && selInfo.Kind() == types.FieldVal {
			owner := ownerName(selInfo.Recv())
			promoted := len(selInfo.Index()) > 1
			if promoted {
				// promoted field: the contract belongs to the embedded type that declares the field
				t := selInfo.Recv()
				idx := selInfo.Index()
				for _, fi := range idx[:len(idx)-1] {
					if pt, ok := t.Underlying().(*types.Pointer); ok {
						t = pt.Elem()
					}
					t = t.Underlying().(*types.Struct).Field(fi).Type()
				}
				owner = ownerName(t)
			}
			if si, ok := vc.prog.fspec[owner+"."+se.Sel.Name]; ok {
				var recv Val
				if promoted {
					recv = vc.evalEmbeddedPath(st, se.X, selInfo)
				} else {
					recv = vc.eval(st, se.X)
				}
				args := vc.evalArgs(st, call)
				res := vc.callModular(st, nil, si, recv, args, call.Pos(), owner+"."+se.Sel.Name)
				vc.forkUnwind(st, si)
				return res
			}
		}
	}
	v := vc.eval(st, fun)
	if fv, ok := v.(*FuncV); ok && fv.Lit != nil {
		lit := fv.Lit.(*ast.FuncLit)
		args := vc.evalArgs(st, call)
		return vc.runBody(st, nil, lit, lit.Type, nil, lit.Body, vc.info, nil, args)
	}
	if fv, ok := v.(*FuncV); ok && fv.Fn != nil {
		if fi := vc.prog.byObj[fv.Fn.Origin()]; fi != nil {
			args := vc.evalArgs(st, call)
			if fi.Spec != nil {
				return vc.callModular(st, fi, fi.Spec, fv.Recv, args, call.Pos(), fi.Key)
			}
			return vc.inlineCall(st, fi, fv.Recv, args, call)
		}
	}
	// contract attached to a func-typed parameter: fspec_<func>_<param> (plain function, no receiver)
	if id, ok := fun.(*ast.Ident); ok && vc.fn != nil {
		key := recvBaseName(vc.fn.Decl) + "." + vc.fn.Decl.Name.Name + "_" + id.Name
		if si, ok := vc.prog.fspec[key]; ok {
			args := vc.evalArgs(st, call)
			var recv Val
			if vc.fn.Decl.Recv != nil && len(vc.fn.Decl.Recv.List[0].Names) > 0 {
				recv = st.vars[vc.fn.Pkg.TypesInfo.ObjectOf(vc.fn.Decl.Recv.List[0].Names[0])]
			}
			// extra contract parameters (beyond the callee's signature) denote local variables of the calling
			// function, bound by name at the call site
			_, ps, _ := specParamObjs(si)
			scope := vc.fn.Pkg.Types.Scope().Innermost(call.Pos())
			for i := len(args); i < len(ps); i++ {
				var found types.Object
				if scope != nil {
					_, found = scope.LookupParent(ps[i].Name(), call.Pos())
				}
				v, ok := st.vars[found]
				if found == nil || !ok {
					panic(unsupported("fspec %s: no local variable %s at the call site", key, ps[i].Name()))
				}
				args = append(args, v)
			}
			res := vc.callModular(st, nil, si, recv, args, call.Pos(), key)
			vc.forkUnwind(st, si)
			return res
		}
	}
	panic(unsupported("call through function value %s without fspec contract (at %s)", exprString(fun), vc.prog.pos(call.Pos())))
}

// externalCall: a function outside the program. Uses an ext_ contract when present; otherwise the
// call is treated as returning arbitrary values without touching modelled state (recorded).
func (vc *VC) externalCall(st *State, fn *types.Func, recv Val, args []Val, call *ast.CallExpr) Val {
	key := extKey(fn)
	if si, ok := vc.prog.ext[key]; ok {
		if recv != nil {
			// ext specs take the receiver as first parameter
			args = append([]Val{recv}, args...)
		}
		// extra contract parameters denote local variables of the calling function (bound by name)
		if _, ps, _ := specParamObjs(si); len(ps) > len(args) && vc.fn != nil {
			scope := vc.fn.Pkg.Types.Scope().Innermost(call.Pos())
			for i := len(args); i < len(ps); i++ {
				var found types.Object
				if scope != nil {
					_, found = scope.LookupParent(ps[i].Name(), call.Pos())
				}
				v, ok := st.vars[found]
				if found == nil || !ok {
					panic(unsupported("ext contract %s: no local variable %s at the call site", key, ps[i].Name()))
				}
				args = append(args, v)
			}
		}
		return vc.callModular(st, nil, si, nil, args, call.Pos(), "ext."+key)
	}
	vc.note("external call " + key + " treated as arbitrary result without effect on modelled state")
	sig := fn.Type().(*types.Signature)
	var rs []Val
	for i := 0; i < sig.Results().Len(); i++ {
		rs = append(rs, vc.freshVal(sig.Results().At(i).Type(), "ext."+fn.Name()))
	}
	switch len(rs) {
	case 0:
		return &TupleV{}
	case 1:
		return rs[0]
	}
	return &TupleV{rs}
}

func (vc *VC) note(s string) {
	for _, n := range vc.notes {
		if n == s {
			return
		}
	}
	vc.notes = append(vc.notes, s)
}

func constantInt(tv types.TypeAndValue) (int, bool) {
	v, ok := constantInt64(tv)
	return int(v), ok
}

// evalOpaque: an opaque (abstract) predicate or function. It is an uninterpreted symbol applied to its
// arguments AND to the heap arrays its definition reads (its footprint, determined by evaluating the body
// once); the definition is available only in VCs whose contract says reveal("<name>"). Callers that do
// not reveal it reason with the symbol alone: facts about it come from callee contracts.
func (vc *VC) evalOpaque(st *State, fi *FuncInfo, args []Val, call *ast.CallExpr) Val {
	sig := fi.Obj.Type().(*types.Signature)
	rs := vc.sortOf(sig.Results().At(0).Type())
	if vc.isRevealed(fi.Obj.Name()) {
		// revealed in this VC: the definition is used in place, everywhere (no symbol is introduced, so no
		// linking axiom is needed)
		saveMode := vc.specMode
		vc.specMode = true
		body := vc.evalPure(st, fi, args, call).(*Scalar)
		vc.specMode = saveMode
		return sc(body.T, rs)
	}
	reads := vc.opaqueReads(fi, args)
	var as []Sort
	var ts []string
	for _, a := range args {
		s, ok := a.(*Scalar)
		if !ok {
			panic(unsupported("opaque function %s: non-scalar argument", fi.Obj.Name()))
		}
		as = append(as, s.S)
		ts = append(ts, s.T)
	}
	if len(reads) > 0 {
		// the footprint: the versions of the heap arrays the definition reads. Two applications denote the
		// same value when arguments and versions coincide; nothing else is assumed (the arrays themselves are
		// not passed to the solver: a snapshot constant stands for the tuple of versions)
		for _, r := range reads {
			as = append(as, "Vid")
			ts = append(ts, vc.vidOf(vc.heapGet(st, r.name, r.sort)))
		}
	}
	f := vc.declareFun("op."+fi.Obj.Name(), as, rs)
	if len(ts) == 0 {
		return sc(f, rs)
	}
	return sc(sx(f, ts...), rs)
}

// vidOf: the version identifier of a heap array term. Opaque predicates are applied to version
// identifiers (scalars) instead of the arrays themselves; a heap merged at a control-flow join gets the
// corresponding ite of the branch identifiers (see merge2), so that a folded predicate established on a
// branch is still known after the join.
func (vc *VC) vidOf(heapTerm string) string {
	if vc.snaps == nil {
		vc.snaps = map[string]string{}
	}
	if c, ok := vc.snaps[heapTerm]; ok {
		return c
	}
	vc.needSort("Vid")
	c := quoteName(fmt.Sprintf("vid!%d", len(vc.snaps)+1))
	vc.decls = append(vc.decls, fmt.Sprintf("(declare-const %s Vid)", c))
	vc.snaps[heapTerm] = c
	return c
}

func (vc *VC) isRevealed(name string) bool {
	if vc.revealed == nil {
		vc.revealed = map[string]bool{}
		var specs []*SpecInfo
		if vc.fn != nil {
			specs = append(specs, vc.fn.Spec)
			for _, l := range vc.fn.Loops {
				specs = append(specs, l)
			}
		}
		if vc.lemmaSpec != nil {
			specs = append(specs, vc.lemmaSpec)
		}
		for _, si := range specs {
			if si == nil {
				continue
			}
			for _, sel := range si.Selections {
				if sel.Clause == "#reveal" {
					for _, l := range sel.Labels {
						vc.revealed[l] = true
					}
				}
			}
		}
	}
	return vc.revealed[name]
}

// opaqueReads: the heap arrays the definition of an opaque function reads (its footprint).
func (vc *VC) opaqueReads(fi *FuncInfo, args []Val) []heapRead {
	if vc.opReads == nil {
		vc.opReads = map[*FuncInfo][]heapRead{}
	}
	if r, ok := vc.opReads[fi]; ok {
		return r
	}
	var rec []heapRead
	saveTraceN := len(vc.trace)
	saveHT, saveMode, saveOld := vc.heapTrace, vc.specMode, vc.oldState
	probe := &State{vars: map[types.Object]Val{}, heap: map[string]string{}, pc: "true"}
	vc.heapTrace, vc.specMode, vc.oldState = &rec, true, probe
	vc.dry++
	func() {
		defer func() {
			vc.dry--
			vc.heapTrace, vc.specMode, vc.oldState = saveHT, saveMode, saveOld
			vc.trace = vc.trace[:saveTraceN]
			vc.labels = vc.labels[:saveTraceN]
		}()
		vc.evalPure(probe, fi, args, nil)
	}()
	if saveHT != nil {
		// nested inside another probe: the outer footprint includes this one
		for _, r := range rec {
			dup := false
			for _, o := range *saveHT {
				if o.name == r.name {
					dup = true
				}
			}
			if !dup {
				*saveHT = append(*saveHT, r)
			}
		}
	}
	vc.opReads[fi] = rec
	return rec
}

func extKey(fn *types.Func) string {
	key := fn.Pkg().Name() + "."
	if r := recvTypeName(fn); r != "" {
		key += r + "."
	}
	return key + fn.Name()
}

// finsumAxioms: AX-FINSUM (DESIGN.md 2.6): the only axioms in the system. Sums and cardinalities of
// finite member sets are uninterpreted; these schemata relate them across point updates. Arithmetic is
// modulo 2^64 (A-MEM: fewer than 2^63 members).
func (vc *VC) finsumAxioms() {
	if vc.declared["ax.finsum"] {
		return
	}
	vc.declared["ax.finsum"] = true
	S, W := "(Array Ref Bool)", "(Array Ref (_ BitVec 64))"
	z := bvLit(0, 64)
	one := bvLit(1, 64)
	vc.decls = append(vc.decls,
		fmt.Sprintf("(declare-fun fs.sum (%s %s) (_ BitVec 64))", S, W),
		fmt.Sprintf("(declare-fun fs.card (%s) (_ BitVec 64))", S),
		// insertion / removal of one member
		fmt.Sprintf("(assert (forall ((s %s) (w %s) (e Ref)) (! (= (fs.sum (store s e true) w) (ite (select s e) (fs.sum s w) (bvadd (fs.sum s w) (select w e)))) :pattern ((fs.sum (store s e true) w)))))", S, W),
		fmt.Sprintf("(assert (forall ((s %s) (w %s) (e Ref)) (! (= (fs.sum (store s e false) w) (ite (select s e) (bvsub (fs.sum s w) (select w e)) (fs.sum s w))) :pattern ((fs.sum (store s e false) w)))))", S, W),
		// point update of a weight
		fmt.Sprintf("(assert (forall ((s %s) (w %s) (e Ref) (v (_ BitVec 64))) (! (= (fs.sum s (store w e v)) (ite (select s e) (bvadd (bvsub (fs.sum s w) (select w e)) v) (fs.sum s w))) :pattern ((fs.sum s (store w e v))))))", S, W),
		fmt.Sprintf("(assert (forall ((s %s) (e Ref)) (! (= (fs.card (store s e true)) (ite (select s e) (fs.card s) (bvadd (fs.card s) %s))) :pattern ((fs.card (store s e true))))))", S, one),
		fmt.Sprintf("(assert (forall ((s %s) (e Ref)) (! (= (fs.card (store s e false)) (ite (select s e) (bvsub (fs.card s) %s) (fs.card s))) :pattern ((fs.card (store s e false))))))", S, one),
		// emptiness
		fmt.Sprintf("(assert (forall ((s %s) (e Ref)) (! (=> (select s e) (bvsgt (fs.card s) %s)) :pattern ((select s e) (fs.card s)))))", S, z),
		fmt.Sprintf("(assert (forall ((s %s)) (! (bvsge (fs.card s) %s) :pattern ((fs.card s)))))", S, z),
		fmt.Sprintf("(assert (forall ((s %s) (w %s)) (! (=> (= (fs.card s) %s) (= (fs.sum s w) %s)) :pattern ((fs.sum s w)))))", S, W, z, z),
		fmt.Sprintf("(assert (forall ((s %s)) (! (=> (not (= (fs.card s) %s)) (select s (fs.wit s))) :pattern ((fs.card s)))))", S, z),
	)
	vc.decls = append([]string{fmt.Sprintf("(declare-fun fs.wit (%s) Ref)", S)}, vc.decls...)
}

// touchedObjects: heap field -> object references named by the contract's `touches` clauses, evaluated
// in the state before the call.
func (vc *VC) touchedObjects(st *State, si *SpecInfo, recv Val, args []Val) map[string][]string {
	out := map[string][]string{}
	has := false
	for _, c := range si.Clauses {
		if c.Kind == "touches" || c.Kind == "touchesmap" {
			has = true
		}
	}
	if !has {
		return out
	}
	b := vc.bindSpec(si, recv, args, nil)
	saveInfo, saveMode, saveOld := vc.info, vc.specMode, vc.oldState
	vc.info, vc.specMode, vc.oldState = si.Pkg.TypesInfo, true, st
	defer func() {
		vc.info, vc.specMode, vc.oldState = saveInfo, saveMode, saveOld
		vc.unbind(b)
	}()
	for _, c := range si.Clauses {
		if c.Kind == "touchesmap" {
			// the map object an expression denotes: its rows of the three map heaps
			for _, a := range c.Args {
				mt, ok := vc.typeOf(a).Underlying().(*types.Map)
				if !ok {
					panic(unsupported("touchesmap: %s is not a map", exprString(a)))
				}
				m := vc.evalScalar(st, a)
				d, v, l, _, _ := vc.mapHeaps(mt)
				for _, n := range []string{d, v, l} {
					out[n] = append(out[n], m.T)
				}
			}
			continue
		}
		if c.Kind != "touches" {
			continue
		}
		for _, a := range c.Args {
			p := vc.resolvePlace(st, a)
			if p.kind != pHeap {
				panic(unsupported("touches: %s is not a field of a heap object", exprString(a)))
			}
			for _, n := range vc.placeHeapNames(p) {
				out[n] = append(out[n], p.ref)
			}
		}
	}
	return out
}

// quietHeaps: heaps named by quietunless(cond, "heap"...) clauses whose condition is (syntactically) false in
// the given state. onlyLiteral: at call sites only a literally false condition is used.
func (vc *VC) quietHeaps(st *State, si *SpecInfo, recv Val, args []Val, onlyLiteral bool) map[string]bool {
	out := map[string]bool{}
	has := false
	for _, c := range si.Clauses {
		if c.Kind == "quietunless" {
			has = true
		}
	}
	if !has {
		return out
	}
	b := vc.bindSpec(si, recv, args, nil)
	saveInfo, saveMode, saveOld := vc.info, vc.specMode, vc.oldState
	vc.info, vc.specMode, vc.oldState = si.Pkg.TypesInfo, true, st
	defer func() {
		vc.info, vc.specMode, vc.oldState = saveInfo, saveMode, saveOld
		vc.unbind(b)
	}()
	for _, c := range si.Clauses {
		if c.Kind != "quietunless" {
			continue
		}
		// c.Name is empty here: the first argument is the condition, the rest heap names
		all := append([]ast.Expr{}, c.Args...)
		if len(all) < 2 {
			continue
		}
		cond := vc.evalBool(st, all[0])
		if onlyLiteral && cond != "false" {
			continue
		}
		for _, a := range all[1:] {
			if bl, ok := a.(*ast.BasicLit); ok {
				n := strings.Trim(bl.Value, "\"`")
				if onlyLiteral {
					out[n] = true
				} else {
					out[n+"|"+cond] = true
				}
			}
		}
	}
	return out
}

// evalEmbeddedPath evaluates x.<embedded...> up to (not including) the last selected field.
func (vc *VC) evalEmbeddedPath(st *State, X ast.Expr, selInfo *types.Selection) Val {
	t := selInfo.Recv()
	v := vc.eval(st, X)
	idx := selInfo.Index()
	for _, fi := range idx[:len(idx)-1] {
		if pt, ok := t.Underlying().(*types.Pointer); ok {
			s := v.(*Scalar)
			p := place{kind: pHeap, ref: s.T, owner: typeKey(pt.Elem()), typ: pt.Elem()}
			f := pt.Elem().Underlying().(*types.Struct).Field(fi)
			v = vc.loadPlace(st, vc.fieldOf(st, p, f))
			t = f.Type()
		} else {
			f := t.Underlying().(*types.Struct).Field(fi)
			v = v.(*StructV).F[f.Name()]
			t = f.Type()
		}
	}
	return v
}

// forkUnwind: a call through a function value whose contract carries flag("may_unwind") may also not return:
// the callee panics or calls runtime.Goexit. The state after the call's effects is kept as an abrupt exit of the
// current frame (its deferred calls run when the frame is left, see processUnwinds); the normal path continues
// under the complementary condition.
func (vc *VC) forkUnwind(st *State, si *SpecInfo) {
	if si == nil || !si.Flags["may_unwind"] || vc.unw != nil || vc.specMode || vc.dry != 0 || st.pc == "false" || len(vc.frames) == 0 {
		return
	}
	uk := vc.declare("unwound", SBool)
	u := st.clone()
	u.pc = vc.newPC(and(st.pc, uk))
	st.pc = vc.newPC(and(st.pc, not(uk)))
	fr := vc.frames[len(vc.frames)-1]
	fr.unwinds = append(fr.unwinds, unwound{st: u, isPanic: vc.declare("unwoundByPanic", SBool)})
}

// processUnwinds runs, for every abrupt exit recorded in the frame, the frame's deferred calls (LIFO) with
// recover() behaving as the language defines it. An exit whose panic was recovered becomes a normal return of
// the frame; the others continue in the calling frame (whose deferred calls are parentDefers). At the function
// under verification an unrecovered exit leaves the function: its always_* postconditions are obligations there
// (`.onunwind`), with goexited() telling a Goexit from a panic.
func (vc *VC) processUnwinds(fr *frame, parentDefers []deferred) {
	uws := fr.unwinds
	fr.unwinds = nil
	for _, uw := range uws {
		ctx := &unwindCtx{isPanic: uw.isPanic, recovered: "false"}
		vc.unw = ctx
		vc.runDefers(uw.st)
		vc.unw = nil
		if uw.st.pc == "false" {
			continue
		}
		if ctx.recovered != "false" {
			r := uw.st.clone()
			r.pc = vc.newPC(and(r.pc, ctx.recovered))
			r.defers = nil
			fr.returns = append(fr.returns, r)
		}
		n := uw.st
		n.pc = vc.newPC(and(n.pc, not(ctx.recovered)))
		if len(vc.frames) >= 2 {
			parent := vc.frames[len(vc.frames)-2]
			n.defers = append([]deferred{}, parentDefers...)
			parent.unwinds = append(parent.unwinds, unwound{st: n, isPanic: uw.isPanic})
			continue
		}
		// leaving the function under verification abruptly
		if vc.fn == nil || vc.fn.Spec == nil {
			continue
		}
		vc.goexitTerm = not(uw.isPanic)
		b := vc.bindSpec(vc.fn.Spec, vc.specRecv, vc.specArgs, nil)
		for _, c := range vc.fn.Spec.Clauses {
			if c.Kind == "ensures" && strings.HasPrefix(c.Name, "always_") {
				t := vc.evalClause(n, vc.fn.Spec, c.Expr, vc.entry)
				vc.oblige(n, "post", c.Name+".onunwind", c.Pos, t, "postcondition "+c.Name+" on the exit taken when a called function value panics or calls runtime.Goexit")
			}
		}
		vc.unbind(b)
		vc.goexitTerm = ""
	}
}
