package main

// Loading /repo with the verif tag and indexing functions, specs, loop specs, lemmas.

import (
	"fmt"
	"go/ast"
	"go/token"
	"go/types"
	"os"
	"sort"
	"strconv"
	"strings"

	"golang.org/x/tools/go/packages"
)

type Clause struct {
	Kind string // requires ensures invariant decreases modifies assumes flag
	Name string
	Expr ast.Expr
	Args []ast.Expr
	Pos  token.Pos
}

type SpecInfo struct {
	Decl    *ast.FuncDecl
	Obj     *types.Func
	Pkg     *packages.Package
	Clauses []Clause
	Effects []ast.Stmt // ghost effects executed at exit of the real function
	Flags   map[string]bool
	Trusted bool // ext_/assumed: never verified against a body
	Selections []Selection
}

// Selection: only("clause", labels...) / hide("clause", labels...) choose the hypotheses of one obligation.
type Selection struct {
	Clause string
	Only   bool
	Labels []string
}

type FuncInfo struct {
	Key   string // e.g. internal.CountMinSketch.inc
	Pkg   *packages.Package
	Decl  *ast.FuncDecl
	Obj   *types.Func
	Spec  *SpecInfo
	Loops map[int]*SpecInfo
	mods  map[string]bool
	modsDone bool
	IsSpecFile bool
}

type Program struct {
	fset   *token.FileSet
	pkgs   []*packages.Package
	funcs  map[string]*FuncInfo
	byObj  map[*types.Func]*FuncInfo
	ext    map[string]*SpecInfo // assumed contracts for external functions, key e.g. "bits.OnesCount64"
	fspec  map[string]*SpecInfo // contracts on func-typed fields/params: "TinyLfu.removeCallback"
	lemmas map[string]*SpecInfo
	pure   map[*types.Func]*FuncInfo // sp_ functions
	ghost  map[*types.Func]bool      // gh_ functions
	heapSorts map[string]Sort
	specFiles []string
	interior map[string]bool // "List.root": nested struct fields modelled as interior objects
	monitors map[string][]monitor
	mapValsNonNil map[string]bool
	lockTrack bool
}

func qualName(pkgName string, recv string, name string) string {
	if recv != "" {
		return pkgName + "." + recv + "." + name
	}
	return pkgName + "." + name
}

func recvBaseName(fd *ast.FuncDecl) string {
	if fd.Recv == nil || len(fd.Recv.List) == 0 {
		return ""
	}
	t := fd.Recv.List[0].Type
	for {
		switch x := t.(type) {
		case *ast.StarExpr:
			t = x.X
		case *ast.IndexExpr:
			t = x.X
		case *ast.IndexListExpr:
			t = x.X
		case *ast.ParenExpr:
			t = x.X
		case *ast.Ident:
			return x.Name
		default:
			return "?"
		}
	}
}

func loadProgram(dir string) (*Program, error) {
	cfg := &packages.Config{
		Mode: packages.NeedName | packages.NeedFiles | packages.NeedSyntax | packages.NeedTypes |
			packages.NeedTypesInfo | packages.NeedImports | packages.NeedDeps | packages.NeedCompiledGoFiles,
		Dir:        dir,
		BuildFlags: []string{"-tags=verif"},
		Env:        append(os.Environ(), "GOFLAGS=-mod=mod", "GOPROXY=off", "GOSUMDB=off", "GOTOOLCHAIN=local"),
	}
	pkgs, err := packages.Load(cfg, "./...")
	if err != nil {
		return nil, err
	}
	p := &Program{
		funcs: map[string]*FuncInfo{}, byObj: map[*types.Func]*FuncInfo{}, ext: map[string]*SpecInfo{},
		fspec: map[string]*SpecInfo{}, lemmas: map[string]*SpecInfo{}, pure: map[*types.Func]*FuncInfo{},
		ghost: map[*types.Func]bool{}, heapSorts: map[string]Sort{},
		interior: map[string]bool{"List.root": true}, monitors: map[string][]monitor{}, mapValsNonNil: map[string]bool{"map[K]*call": true},
	}
	var errs []string
	var perrs []packages.Error
	for _, pk := range pkgs {
		for _, e := range pk.Errors {
			errs = append(errs, e.Error())
			perrs = append(perrs, e)
		}
		if !strings.Contains(pk.PkgPath, "theine-go") || strings.HasSuffix(pk.PkgPath, "/run") {
			continue
		}
		p.pkgs = append(p.pkgs, pk)
		p.fset = pk.Fset
	}
	if len(errs) > 0 {
		return nil, &LoadError{Errs: perrs, msg: fmt.Sprintf("type errors loading /repo with -tags=verif:\n%s", strings.Join(errs, "\n"))}
	}
	// index
	type pend struct {
		pk *packages.Package
		fd *ast.FuncDecl
	}
	var specs []pend
	for _, pk := range p.pkgs {
		for i, f := range pk.Syntax {
			fname := pk.CompiledGoFiles[i]
			isSpec := strings.HasSuffix(fname, "_verif.go")
			if isSpec {
				p.specFiles = append(p.specFiles, fname)
			}
			for _, d := range f.Decls {
				fd, ok := d.(*ast.FuncDecl)
				if !ok {
					continue
				}
				obj, _ := pk.TypesInfo.Defs[fd.Name].(*types.Func)
				name := fd.Name.Name
				if isSpec && (strings.HasPrefix(name, "spec_") || strings.HasPrefix(name, "ext_") ||
					strings.HasPrefix(name, "fspec_") || strings.HasPrefix(name, "lemma_") || strings.HasPrefix(name, "chansend_") || strings.HasPrefix(name, "chanrecv_")) {
					specs = append(specs, pend{pk, fd})
					continue
				}
				fi := &FuncInfo{Key: qualName(pk.Name, recvBaseName(fd), name), Pkg: pk, Decl: fd, Obj: obj,
					Loops: map[int]*SpecInfo{}, IsSpecFile: isSpec}
				if isSpec && (hasPfx(name, "sp_") || hasPfx(name, "op_") || strings.HasPrefix(name, "atominv_") || strings.HasPrefix(name, "moninv_")) {
					p.pure[obj] = fi
				}
				if isSpec && hasPfx(name, "gh_") {
					p.ghost[obj] = true
				}
				p.funcs[fi.Key] = fi
				if obj != nil {
					p.byObj[obj] = fi
				}
			}
		}
	}
	for _, s := range specs {
		si, err := p.parseSpec(s.pk, s.fd)
		if err != nil {
			return nil, err
		}
		name := s.fd.Name.Name
		recv := recvBaseName(s.fd)
		switch {
		case strings.HasPrefix(name, "ext_"):
			si.Trusted = true
			p.ext[strings.Replace(strings.TrimPrefix(name, "ext_"), "_", ".", -1)] = si
		case strings.HasPrefix(name, "fspec_"):
			p.fspec[recv+"."+strings.TrimPrefix(name, "fspec_")] = si
		case strings.HasPrefix(name, "chansend_") || strings.HasPrefix(name, "chanrecv_"):
			p.fspec[recv+"."+name] = si
		case strings.HasPrefix(name, "lemma_"):
			p.lemmas[s.pk.Name+"."+name] = si
		default:
			base := strings.TrimPrefix(name, "spec_")
			loop := 0
			if i := strings.LastIndex(base, "_loop"); i >= 0 {
				if n, err := strconv.Atoi(base[i+5:]); err == nil {
					loop = n
					base = base[:i]
				}
			}
			key := qualName(s.pk.Name, recv, base)
			fi, ok := p.funcs[key]
			if !ok {
				return nil, fmt.Errorf("%s: spec %s has no target function %s", p.fset.Position(s.fd.Pos()), name, key)
			}
			if loop > 0 {
				fi.Loops[loop] = si
			} else {
				fi.Spec = si
			}
		}
	}
	return p, nil
}

var clauseKinds = map[string]bool{"requires": true, "ensures": true, "invariant": true, "decreases": true,
	"modifies": true, "assumes": true, "flag": true, "asserts": true, "touches": true, "touchesmap": true, "quietunless": true}

func (p *Program) parseSpec(pk *packages.Package, fd *ast.FuncDecl) (*SpecInfo, error) {
	obj, _ := pk.TypesInfo.Defs[fd.Name].(*types.Func)
	si := &SpecInfo{Decl: fd, Obj: obj, Pkg: pk, Flags: map[string]bool{}}
	if fd.Body == nil {
		return si, nil
	}
	counts := map[string]int{}
	for _, st := range fd.Body.List {
		es, ok := st.(*ast.ExprStmt)
		if ok {
			if call, ok := es.X.(*ast.CallExpr); ok {
				if id, ok := call.Fun.(*ast.Ident); ok && id.Name == "reveal" {
					sel := Selection{Clause: "#reveal"}
					for _, a := range call.Args {
						if bl, ok := a.(*ast.BasicLit); ok {
							v, _ := strconv.Unquote(bl.Value)
							sel.Labels = append(sel.Labels, v)
						}
					}
					si.Selections = append(si.Selections, sel)
					continue
				}
				if id, ok := call.Fun.(*ast.Ident); ok && (id.Name == "only" || id.Name == "hide") {
					sel := Selection{Only: id.Name == "only"}
					for i, a := range call.Args {
						bl, ok := a.(*ast.BasicLit)
						if !ok {
							return nil, fmt.Errorf("%s: only/hide take string literals", p.fset.Position(a.Pos()))
						}
						v, _ := strconv.Unquote(bl.Value)
						if i == 0 {
							sel.Clause = v
						} else {
							sel.Labels = append(sel.Labels, v)
						}
					}
					si.Selections = append(si.Selections, sel)
					continue
				}
				if id, ok := call.Fun.(*ast.Ident); ok && clauseKinds[id.Name] {
					c := Clause{Kind: id.Name, Pos: call.Pos()}
					args := call.Args
					if len(args) > 0 {
						if bl, ok := args[0].(*ast.BasicLit); ok && bl.Kind == token.STRING {
							c.Name, _ = strconv.Unquote(bl.Value)
							args = args[1:]
						}
					}
					if c.Kind == "flag" {
						si.Flags[c.Name] = true
						if c.Name == "trusted" {
							si.Trusted = true
						}
						continue
					}
					if c.Name == "" {
						counts[c.Kind]++
						c.Name = fmt.Sprintf("%d", counts[c.Kind])
					}
					c.Args = args
					if len(args) > 0 {
						c.Expr = args[0]
					}
					si.Clauses = append(si.Clauses, c)
					continue
				}
			}
		}
		if _, ok := st.(*ast.ReturnStmt); ok {
			continue
		}
		// anything else is a ghost effect
		si.Effects = append(si.Effects, st)
	}
	return si, nil
}

func (p *Program) funcKeys() []string {
	var ks []string
	for k := range p.funcs {
		ks = append(ks, k)
	}
	sort.Strings(ks)
	return ks
}

func (p *Program) pos(pos token.Pos) string {
	ps := p.fset.Position(pos)
	return fmt.Sprintf("%s:%d", strings.TrimPrefix(ps.Filename, "/repo/"), ps.Line)
}

// hasPfx: contract-function prefixes may be capitalised to export them across packages (Sp_, Gh_, Op_).
func hasPfx(name, pfx string) bool {
	return strings.HasPrefix(lowerFirst(name), pfx)
}

func lowerFirst(s string) string {
	if s == "" {
		return s
	}
	return strings.ToLower(s[:1]) + s[1:]
}

// ghostByName finds a ghost function declared in pkg's contract files.
func (p *Program) ghostByName(pkg *types.Package, name string) *types.Func {
	for f := range p.ghost {
		if f.Name() == name && f.Pkg() == pkg {
			return f
		}
	}
	return nil
}

// LoadError: /repo did not type-check under the build tag verif.
type LoadError struct {
	Errs []packages.Error
	msg  string
}

func (e *LoadError) Error() string { return e.msg }
