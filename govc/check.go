package main

// Property layer: maps properties to functions/lemmas under contract, compares the run against
// obligations.lock and known_findings.json, writes evidence and replay files, prints the verdict.

import (
	"crypto/sha256"
	"encoding/json"
	"fmt"
	"os"
	"path/filepath"
	"regexp"
	"sort"
	"strings"
	"time"
)

type PropConfig struct {
	ID          string   `json:"id"`
	Functions   []string `json:"functions"`
	Lemmas      []string `json:"lemmas"`
	LockTrack   bool     `json:"lock_track"`
	Assumptions []string `json:"assumptions"`
	NotCovered  []string `json:"not_covered"`
	Trusted     []string `json:"trusted_base"`
	Bounded     []string `json:"bounded_standins"`
	// Only obligations whose name matches one of these (regexps) belong to the property; empty = all
	// obligations of the listed functions.
	Select  []string `json:"select"`
	Exclude []string `json:"exclude"`
	// Type-level contracts of the property: pure contract functions whose only content is their signature
	// (e.g. "the singleflight table of a shard is a Group keyed by K"). If the contract files stop type-checking
	// exactly there, the property's contract is violated by the changed code.
	TypeContracts []string `json:"type_contracts"`
}

type KnownFinding struct {
	Property   string `json:"property"`
	Obligation string `json:"obligation"` // exact obligation name
	ID         string `json:"id"`
	What       string `json:"what"`
	Input      string `json:"failing_input"`
	Status     string `json:"status"` // open | fixed
	Commit     string `json:"commit,omitempty"`
}

type LockFile struct {
	// property -> obligation name -> "discharged"
	Named map[string]map[string]string `json:"named"`
	// property -> "func/kind" classes whose members must all discharge
	Classes map[string][]string `json:"classes"`
}

var autoKinds = map[string]bool{"index": true, "nil": true, "pre": true, "lock": true, "div": true, "panic": true, "blocking": true, "guard": true}

func classOf(o *Obligation) string { return o.Func + "/" + o.Kind }

func loadJSON(path string, v interface{}) error {
	b, err := os.ReadFile(path)
	if err != nil {
		return err
	}
	return json.Unmarshal(b, v)
}

type verdict struct {
	o      *Obligation
	status string // discharged | known-finding | violated | unclaimed-fail | new-fail
	kf     *KnownFinding
}

func runCheck(prog *Program, verifDir string, propID string, tier string, seed int64, relock bool, par int) int {
	t0 := time.Now()
	var props []PropConfig
	if err := loadJSON(filepath.Join(verifDir, "props.json"), &props); err != nil {
		fmt.Println("cannot read props.json:", err)
		return 2
	}
	var pc *PropConfig
	for i := range props {
		if props[i].ID == propID {
			pc = &props[i]
		}
	}
	if pc == nil {
		fmt.Println("unknown property", propID)
		return 2
	}
	var kfs []KnownFinding
	loadJSON(filepath.Join(verifDir, "known_findings.json"), &kfs)
	lock := LockFile{Named: map[string]map[string]string{}, Classes: map[string][]string{}}
	loadJSON(filepath.Join(verifDir, "obligations.lock"), &lock)

	timeout := 60 * time.Second
	if tier == "thorough" {
		timeout = 180 * time.Second
	}
	prog.lockTrack = pc.LockTrack
	workdir := filepath.Join(verifDir, ".work", propID)
	os.RemoveAll(workdir)
	os.MkdirAll(workdir, 0o755)

	var results []*FuncResult
	var genErrors []string
	for _, k := range pc.Functions {
		fi, ok := prog.funcs[k]
		if !ok {
			genErrors = append(genErrors, "function under contract is missing: "+k)
			continue
		}
		r := prog.verifyFunc(fi)
		if r.Err != nil {
			genErrors = append(genErrors, fmt.Sprintf("%s: %v", k, r.Err))
		}
		results = append(results, r)
	}
	for _, k := range pc.Lemmas {
		si, ok := prog.lemmas[k]
		if !ok {
			genErrors = append(genErrors, "lemma is missing: "+k)
			continue
		}
		r := prog.verifyLemma(k, si)
		if r.Err != nil {
			genErrors = append(genErrors, fmt.Sprintf("%s: %v", k, r.Err))
		}
		results = append(results, r)
	}
	var sels []*regexp.Regexp
	for _, s := range pc.Select {
		sels = append(sels, regexp.MustCompile(s))
	}
	var excls []*regexp.Regexp
	for _, s := range pc.Exclude {
		excls = append(excls, regexp.MustCompile(s))
	}
	inProp := func(o *Obligation) bool {
		for _, re := range excls {
			if re.MatchString(o.Name) {
				return false
			}
		}
		if len(sels) == 0 {
			return true
		}
		for _, re := range sels {
			if re.MatchString(o.Name) {
				return true
			}
		}
		return false
	}
	for i := range kfs {
		if kfs[i].Property == propID && kfs[i].Status != "fixed" {
			expectedToFail[kfs[i].Obligation] = true
		}
	}
	dischargeAll(results, timeout, workdir, par, inProp)

	// vacuity canaries: `false` at the entry of each function (after requires) must NOT be provable
	canaryBad := []string{}
	nCanary := 0
	for _, r := range results {
		if r.vc == nil || r.vc.canary == nil {
			continue
		}
		nCanary++
		q := r.vc.query(r.vc.canary, false)
		res := solve(q, 3*time.Second, workdir, r.vc.canary.Name, false)
		if res.Status == "unsat" {
			canaryBad = append(canaryBad, r.Key)
		}
	}

	named := lock.Named[propID]
	classes := map[string]bool{}
	for _, c := range lock.Classes[propID] {
		classes[c] = true
	}
	kfByObl := map[string]*KnownFinding{}
	for i := range kfs {
		if kfs[i].Property == propID && kfs[i].Status != "fixed" {
			kfByObl[kfs[i].Obligation] = &kfs[i]
		}
	}

	var all []*Obligation
	seen := map[string]*Obligation{}
	for _, r := range results {
		for _, o := range r.Obls {
			if !inProp(o) {
				continue
			}
			all = append(all, o)
			seen[o.Name] = o
		}
	}

	if relock {
		nm := map[string]string{}
		cl := map[string]bool{}
		clBad := map[string]bool{}
		for _, o := range all {
			ok := o.Res.Status == "unsat"
			if autoKinds[o.Kind] {
				if ok {
					cl[classOf(o)] = true
				} else if kfByObl[o.Name] == nil {
					clBad[classOf(o)] = true
				}
				continue
			}
			if ok {
				nm[o.Name] = "discharged"
			} else if kfByObl[o.Name] != nil {
				nm[o.Name] = "known-finding"
			} else {
				fmt.Printf("relock: NOT CLAIMED (does not discharge, not a known finding): %s [%s]\n", o.Name, o.Res.Status)
			}
		}
		var cls []string
		for c := range cl {
			if clBad[c] {
				fmt.Printf("relock: class NOT CLAIMED (some member fails): %s\n", c)
				continue
			}
			cls = append(cls, c)
		}
		sort.Strings(cls)
		lock.Named[propID] = nm
		lock.Classes[propID] = cls
		b, _ := json.MarshalIndent(lock, "", " ")
		os.WriteFile(filepath.Join(verifDir, "obligations.lock"), append(b, '\n'), 0o644)
		fmt.Printf("relock %s: %d named obligations, %d classes\n", propID, len(nm), len(cls))
		for _, e := range genErrors {
			fmt.Println("relock: GENERATION ERROR:", e)
		}
		return 0
	}

	// verdicts
	var vs []verdict
	claimed, discharged := 0, 0
	var violations []verdict
	var knownPrinted []string
	for _, o := range all {
		_, isNamed := named[o.Name]
		inClass := autoKinds[o.Kind] && classes[classOf(o)]
		ok := o.Res.Status == "unsat"
		kf := kfByObl[o.Name]
		switch {
		case kf != nil:
			if ok {
				// a listed finding that now discharges: report, do not fail
				vs = append(vs, verdict{o, "known-finding-now-discharges", kf})
			} else {
				vs = append(vs, verdict{o, "known-finding", kf})
				knownPrinted = append(knownPrinted, fmt.Sprintf("KNOWN-FINDING: property=%s %s: %s (obligation %s)", propID, kf.ID, kf.What, o.Name))
			}
		case isNamed || inClass:
			claimed++
			if ok {
				discharged++
				vs = append(vs, verdict{o, "discharged", nil})
			} else {
				v := verdict{o, "violated", nil}
				vs = append(vs, v)
				violations = append(violations, v)
			}
		case !autoKinds[o.Kind] && !ok:
			// contract-derived obligation that is not locked and fails: undecided, not claimed
			vs = append(vs, verdict{o, "unclaimed-fail", nil})
		default:
			if ok {
				vs = append(vs, verdict{o, "discharged-unclaimed", nil})
			} else {
				vs = append(vs, verdict{o, "unclaimed-fail", nil})
			}
		}
	}
	// locked obligations that were not generated
	var missing []string
	for n, st := range named {
		if _, ok := seen[n]; !ok {
			if st == "known-finding" {
				continue
			}
			missing = append(missing, n)
		}
	}
	sort.Strings(missing)

	replayDir := filepath.Join(verifDir, "replays", propID)
	os.MkdirAll(replayDir, 0o755)
	exit := 0
	for _, k := range knownPrinted {
		fmt.Println(k)
	}
	for _, v := range violations {
		path := filepath.Join(replayDir, sanitizeFile(v.o.Name)+".json")
		rep := buildReplay(prog, verifDir, propID, v.o, results)
		b, _ := json.MarshalIndent(rep, "", " ")
		os.WriteFile(path, b, 0o644)
		suffix := ""
		if !rep.Reproduced {
			suffix = " no-failing-input-found"
		}
		fmt.Printf("VIOLATION property=%s replay=%s obligation=%s status=%s%s\n", propID, path, v.o.Name, v.o.Res.Status, suffix)
		exit = 1
	}
	for _, m := range missing {
		path := filepath.Join(replayDir, sanitizeFile(m)+".json")
		rep := map[string]interface{}{"property": propID, "obligation": m, "reason": "locked obligation could not be generated from the current source", "generation_errors": genErrors}
		b, _ := json.MarshalIndent(rep, "", " ")
		os.WriteFile(path, b, 0o644)
		fmt.Printf("VIOLATION property=%s replay=%s obligation=%s status=not-generated no-failing-input-found\n", propID, path, m)
		exit = 1
	}
	if len(canaryBad) > 0 {
		// A function whose hypotheses are contradictory proves everything that follows. On a changed tree this
		// happens when an obligation whose conclusion is assumed afterwards (a loop invariant on entry, a callee
		// precondition) fails: the function's remaining obligations - also the ones this property claims - are
		// then vacuous. Look for such a failed obligation among ALL obligations of the function (not only the
		// ones this property selects); if there is one, that obligation is reported as the violation.
		bad := map[string]bool{}
		for _, k := range canaryBad {
			bad[k] = true
		}
		anyKF := map[string]bool{}
		for i := range kfs {
			if kfs[i].Status != "fixed" {
				anyKF[kfs[i].Obligation] = true
			}
		}
		var sub []*FuncResult
		for _, r := range results {
			if bad[r.Key] {
				sub = append(sub, r)
			}
		}
		dischargeAll(sub, timeout, workdir, par, func(o *Obligation) bool { return o.Res.Status == "" && o.Kind != "post" && o.Kind != "canary" })
		explained := map[string]bool{}
		for _, r := range sub {
			for _, o := range r.Obls {
				if o.Res.Status == "" || o.Res.Status == "unsat" || o.Kind == "post" || o.Kind == "canary" || anyKF[o.Name] {
					continue
				}
				already := false
				for _, v := range violations {
					if v.o == o {
						already = true
					}
				}
				if already {
					explained[r.Key] = true // reported above as a claimed obligation of this property
					break
				}
				path := filepath.Join(replayDir, sanitizeFile(o.Name)+".json")
				rep := buildReplay(prog, verifDir, propID, o, results)
				rep.Description += " [this obligation fails and its conclusion is assumed afterwards: every later obligation of " + r.Key + ", including those claimed by " + propID + ", is vacuous]"
				b, _ := json.MarshalIndent(rep, "", " ")
				os.WriteFile(path, b, 0o644)
				fmt.Printf("VIOLATION property=%s replay=%s obligation=%s status=%s vacuous-after-it no-failing-input-found\n", propID, path, o.Name, o.Res.Status)
				explained[r.Key] = true
				exit = 1
				break
			}
		}
		var unexplained []string
		for _, k := range canaryBad {
			if !explained[k] {
				unexplained = append(unexplained, k)
			}
		}
		if len(unexplained) > 0 {
			fmt.Printf("CHECK BROKEN property=%s: contradictory hypotheses (false is provable) in %v\n", propID, unexplained)
			exit = 1
		}
	}
	if claimed == 0 {
		fmt.Printf("CHECK BROKEN property=%s: no claimed obligations generated\n", propID)
		exit = 1
	}

	// evidence
	writeEvidence(verifDir, pc, tier, seed, results, vs, claimed, discharged, len(violations)+len(missing), knownPrinted, genErrors, nCanary, time.Since(t0).Seconds())
	fmt.Printf("property %s: %d obligations claimed, %d discharged, %d known findings, %d violations, %d unclaimed (%.1fs)\n",
		propID, claimed, discharged, len(knownPrinted), len(violations)+len(missing), countStatus(vs, "unclaimed-fail"), time.Since(t0).Seconds())
	return exit
}

func countStatus(vs []verdict, s string) int {
	n := 0
	for _, v := range vs {
		if v.status == s {
			n++
		}
	}
	return n
}

type Replay struct {
	Property   string            `json:"property"`
	Obligation string            `json:"obligation"`
	Position   string            `json:"position"`
	Description string           `json:"description"`
	Status     string            `json:"solver_status"`
	Solver     string            `json:"solver"`
	AllSolvers map[string]string `json:"all_solvers"`
	Inputs     map[string]string `json:"model_inputs,omitempty"`
	SolverOut  string            `json:"solver_output"`
	Reproduced bool              `json:"reproduced_on_real_code"`
	ReplayLog  string            `json:"replay_log,omitempty"`
	ReplayTest string            `json:"replay_test,omitempty"`
	QueryFile  string            `json:"query_file"`
}

func buildReplay(prog *Program, verifDir, propID string, o *Obligation, results []*FuncResult) *Replay {
	rep := &Replay{Property: propID, Obligation: o.Name, Position: o.Pos, Description: o.Desc, Status: o.Res.Status,
		Solver: o.Res.Solver, AllSolvers: o.Res.All}
	out := o.Res.Output
	if len(out) > 20000 {
		out = out[:20000] + "\n...[truncated]"
	}
	rep.SolverOut = out
	rep.QueryFile = filepath.Join(verifDir, ".work", propID, sanitizeFile(o.Name)+".*.smt2")
	var vc *VC
	for _, r := range results {
		for _, x := range r.Obls {
			if x == o {
				vc = r.vc
			}
		}
	}
	if vc != nil && o.Res.Status == "sat" {
		model := parseModel(o.Res.Output)
		rep.Inputs = map[string]string{}
		for name, c := range vc.inputs {
			if v, ok := model[strings.Trim(c, "|")]; ok {
				rep.Inputs[name] = v
			}
		}
		tryConcreteReplay(prog, verifDir, vc, o, model, rep)
	}
	return rep
}

var defRe = regexp.MustCompile(`\(define-fun \|?([^\s|]+)\|? \(\) `)

// parseModel extracts nullary definitions from a (get-model) answer: name -> value s-expression.
func parseModel(out string) map[string]string {
	m := map[string]string{}
	idx := defRe.FindAllStringSubmatchIndex(out, -1)
	for _, loc := range idx {
		name := out[loc[2]:loc[3]]
		// value: balanced s-expr after the sort
		rest := out[loc[1]:]
		// skip sort
		_, n := readSexp(rest)
		rest2 := strings.TrimLeft(rest[n:], " \n\t")
		val, _ := readSexp(rest2)
		m[name] = val
	}
	return m
}

func readSexp(s string) (string, int) {
	i := 0
	for i < len(s) && (s[i] == ' ' || s[i] == '\n' || s[i] == '\t') {
		i++
	}
	start := i
	if i >= len(s) {
		return "", i
	}
	if s[i] != '(' {
		for i < len(s) && s[i] != ' ' && s[i] != ')' && s[i] != '\n' {
			i++
		}
		return s[start:i], i
	}
	d := 0
	for i < len(s) {
		switch s[i] {
		case '(':
			d++
		case ')':
			d--
			if d == 0 {
				return s[start : i+1], i + 1
			}
		}
		i++
	}
	return s[start:], i
}

// ---- evidence -------------------------------------------------------------------------------------------

func writeEvidence(verifDir string, pc *PropConfig, tier string, seed int64, results []*FuncResult, vs []verdict,
	claimed, discharged, violations int, known []string, genErrors []string, canaries int, wall float64) {
	type sample struct {
		Obligation string  `json:"obligation"`
		Kind       string  `json:"kind"`
		Position   string  `json:"position"`
		Status     string  `json:"status"`
		Solver     string  `json:"backend"`
		TimeS      float64 `json:"solver_time_s"`
		VCSize     int     `json:"vc_bytes"`
		VCHash     string  `json:"vc_sha256"`
		Desc       string  `json:"description,omitempty"`
	}
	var samples []sample
	byBackend := map[string]int{}
	totalSolver := 0.0
	vcOf := map[*Obligation]*VC{}
	for _, r := range results {
		for _, o := range r.Obls {
			vcOf[o] = r.vc
		}
	}
	for _, v := range vs {
		totalSolver += v.o.Res.TimeS
		if v.status == "discharged" {
			byBackend[v.o.Res.Solver]++
		}
	}
	// samples: every non-discharged one, plus up to 12 discharged contract-derived ones
	nOk := 0
	for _, v := range vs {
		take := v.status != "discharged" && v.status != "discharged-unclaimed"
		if !take && !autoKinds[v.o.Kind] && nOk < 12 {
			take = true
			nOk++
		}
		if !take {
			continue
		}
		s := sample{Obligation: v.o.Name, Kind: v.o.Kind, Position: v.o.Pos, Status: v.status, Solver: v.o.Res.Solver, TimeS: v.o.Res.TimeS, Desc: v.o.Desc}
		if vc := vcOf[v.o]; vc != nil && v.o.Goal != "true" && len(v.o.Parts) == 0 {
			q := vc.query(v.o, false)
			s.VCSize = len(q)
			s.VCHash = fmt.Sprintf("%x", sha256.Sum256([]byte(q)))[:16]
		}
		samples = append(samples, s)
	}
	if len(samples) == 0 {
		// a property made of generated obligations only (C19: lock.*): the first dozen as they come
		for _, v := range vs {
			if len(samples) >= 12 {
				break
			}
			samples = append(samples, sample{Obligation: v.o.Name, Kind: v.o.Kind, Position: v.o.Pos, Status: v.status, Solver: v.o.Res.Solver, TimeS: v.o.Res.TimeS, Desc: v.o.Desc})
		}
	}
	if samples == nil {
		samples = []sample{}
	}
	var fns []string
	assumed := map[string]bool{}
	var notes []string
	for _, r := range results {
		fns = append(fns, r.Key)
		for _, n := range r.Notes {
			assumed[n] = true
		}
	}
	for n := range assumed {
		notes = append(notes, n)
	}
	sort.Strings(notes)
	var unclaimed []string
	for _, v := range vs {
		if v.status == "unclaimed-fail" {
			unclaimed = append(unclaimed, v.o.Name+" ["+v.o.Res.Status+"]")
		}
	}
	cov := map[string]interface{}{
		"obligations":              claimed,
		"discharged":               discharged,
		"checker_cmd":              "govc check " + pc.ID + " --tier " + tier + " (VCs generated from /repo's working tree; each obligation raced on z3-new 5.1.0, z3 4.8.12, cvc5 1.0.3; unsat = discharged)",
		"trusted_base":             pc.Trusted,
		"functions_under_contract": fns,
		"discharged_by_backend":    byBackend,
		"solver_time_s":            totalSolver,
		"known_findings":           known,
		"undecided_not_claimed":    unclaimed,
		"generation_errors":        genErrors,
		"vacuity_canaries_checked": canaries,
		"assumed_contracts":        notes,
		"bounded_standins":         pc.Bounded,
		"not_covered":              pc.NotCovered,
		"samples":                  samples,
		"machine_arithmetic":       "Go integers are fixed-width bit-vectors (int/uint = 64 bit); ghost order labels are Reals",
	}
	ev := map[string]interface{}{
		"property_id": pc.ID,
		"tier":        tier,
		"seed":        seed,
		"level":       "proof",
		"coverage":    cov,
		"assumptions": pc.Assumptions,
		"wall_s":      wall,
		"violations":  violations,
	}
	os.MkdirAll(filepath.Join(verifDir, "evidence"), 0o755)
	b, _ := json.MarshalIndent(ev, "", " ")
	os.WriteFile(filepath.Join(verifDir, "evidence", pc.ID+".json"), append(b, '\n'), 0o644)
}

// loadErrorVerdict: /repo does not type-check with the contract files. If every error lies inside a contract file
// and one of them lies inside a type-level contract of this property, the changed code contradicts that contract:
// VIOLATION (exit 1). Otherwise the property is undecided: exit 2, no VIOLATION line.
func loadErrorVerdict(le *LoadError, verifDir, repo, propID string) int {
	var props []PropConfig
	if err := loadJSON(filepath.Join(verifDir, "props.json"), &props); err != nil {
		return 2
	}
	var pc *PropConfig
	for i := range props {
		if props[i].ID == propID {
			pc = &props[i]
		}
	}
	if pc == nil || len(pc.TypeContracts) == 0 {
		return 2
	}
	hit := ""
	for _, e := range le.Errs {
		// Pos is file:line:col
		parts := strings.Split(e.Pos, ":")
		if len(parts) < 2 || !strings.HasPrefix(filepath.Base(parts[0]), "zz_") || !strings.HasSuffix(parts[0], "_verif.go") {
			return 2 // the tree itself does not build: not a verdict about the property
		}
		var line int
		fmt.Sscan(parts[1], &line)
		src, err := os.ReadFile(parts[0])
		if err != nil {
			return 2
		}
		// enclosing top-level function: the last "func " at column 0 at or before the line
		lines := strings.Split(string(src), "\n")
		for i := line - 1; i >= 0 && i < len(lines); i-- {
			if strings.HasPrefix(lines[i], "func ") {
				for _, tc := range pc.TypeContracts {
					if strings.HasPrefix(lines[i], "func "+tc+"[") || strings.HasPrefix(lines[i], "func "+tc+"(") {
						hit = tc + ": " + e.Msg
					}
				}
				break
			}
		}
	}
	if hit == "" {
		return 2
	}
	replayDir := filepath.Join(verifDir, "replays", propID)
	os.MkdirAll(replayDir, 0o755)
	path := filepath.Join(replayDir, "type_contract.json")
	rep := map[string]interface{}{"property": propID, "obligation": "typecontract." + strings.SplitN(hit, ":", 2)[0],
		"reason": "the contract files no longer type-check against the code inside a type-level contract of this property", "compiler_output": le.Error()}
	b, _ := json.MarshalIndent(rep, "", " ")
	os.WriteFile(path, b, 0o644)
	fmt.Printf("VIOLATION property=%s replay=%s obligation=typecontract.%s status=type-error no-failing-input-found\n", propID, path, strings.SplitN(hit, ":", 2)[0])
	return 1
}
