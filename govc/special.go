package main

// Built-in semantics for library primitives: atomics, locks, hashing, math/bits, channels.

import (
	"fmt"
	"go/ast"
	"go/token"
	"go/types"
	"strings"
)

// specialCall handles calls whose semantics are built into the verifier. Returns handled=false otherwise.
func (vc *VC) specialCall(st *State, fn *types.Func, recvExpr ast.Expr, call *ast.CallExpr) (Val, bool) {
	pkg := funcPkgPath(fn)
	rt := recvTypeName(fn)
	name := fn.Name()
	switch {
	case pkg == "sync/atomic" && rt != "":
		return vc.atomicMethod(st, rt, name, recvExpr, call), true
	case pkg == "sync/atomic":
		return vc.atomicFunc(st, name, call), true
	case pkg == "sync" && (rt == "Mutex" || rt == "RWMutex"):
		vc.lockOp(st, recvExpr, name, call)
		return &TupleV{}, true
	case strings.HasSuffix(pkg, "theine-go/internal") && rt == "RBMutex":
		vc.lockOp(st, recvExpr, name, call)
		if name == "RLock" {
			return sc(vc.declare("rtoken", SRef), SRef), true
		}
		return &TupleV{}, true
	case strings.HasSuffix(pkg, "internal/hasher") && rt == "Hasher" && name == "Hash":
		vc.eval(st, recvExpr)
		k := vc.evalScalar(st, call.Args[0])
		f := vc.declareFun("Hash."+string(k.S), []Sort{k.S}, BV(64))
		return sc(sx(f, k.T), BV(64)), true
	case pkg == "math/bits" && name == "OnesCount64":
		v := vc.evalScalar(st, call.Args[0])
		return sc(vc.popcount(v.T, 64), BV(64)), true
	case pkg == "math/bits" && name == "TrailingZeros":
		v := vc.evalScalar(st, call.Args[0])
		// ctz: chain of ite from the lowest bit
		t := bvLit(64, 64)
		for i := 63; i >= 0; i-- {
			t = ite(eq(fmt.Sprintf("((_ extract %d %d) %s)", i, i, v.T), "#b1"), bvLit(uint64(i), 64), t)
		}
		return sc(t, BV(64)), true
	case pkg == "math" && name == "Abs":
		v := vc.evalScalar(st, call.Args[0])
		return sc(sx("fp.abs", v.T), v.S), true
	case strings.HasSuffix(pkg, "internal/xruntime") && name == "Fastrand":
		return sc(vc.declare("fastrand", BV(32)), BV(32)), true
	case pkg == "runtime" && (name == "Gosched"):
		return &TupleV{}, true
	case pkg == "errors" && name == "As":
		vc.eval(st, call.Args[0])
		// target variable is havoc'd
		if ue, ok := call.Args[1].(*ast.UnaryExpr); ok && ue.Op == token.AND {
			p := vc.resolvePlace(st, ue.X)
			vc.storePlace(st, p, vc.freshVal(p.typ, "errors.As"))
		}
		e := vc.evalScalar(st, call.Args[0])
		r := vc.declare("errors.As", SBool)
		vc.assume(st, implies(eq(e.T, "nil"), not(r)))
		return sc(r, SBool), true
	case pkg == "errors" && name == "Is":
		e := vc.evalScalar(st, call.Args[0])
		t := vc.evalScalar(st, call.Args[1])
		r := vc.declare("errors.Is", SBool)
		vc.assume(st, and(implies(eq(e.T, "nil"), eq(r, eq(t.T, "nil"))), implies(eq(e.T, t.T), r)))
		return sc(r, SBool), true
	case pkg == "time" && rt == "Duration" && name == "Nanoseconds":
		return vc.eval(st, recvExpr), true
	case pkg == "sync" && rt == "Pool":
		vc.evalArgs(st, call)
		if name == "Get" {
			// A-POOL: a new object or one previously Put; contents arbitrary
			r := vc.declare("pool.get", SRef)
			vc.assumeAllocated(st, r)
			vc.assume(st, not(eq(r, "nil")))
			vc.assumeUnreachable(st, r, true)
			// accesses to recycled objects are outside C19 (which is stated for the pool-off configuration)
			pl := vc.heapGet(st, "gh.pooled", ArrSort(SRef, SBool))
			vc.heapSet(st, "gh.pooled", ArrSort(SRef, SBool), store(pl, r, "true"))
			return sc(r, SRef), true
		}
		return &TupleV{}, true
	case pkg == "encoding/gob" && rt == "Decoder" && name == "Decode":
		// A-GOB: decoding overwrites the fields of the target object with arbitrary values (or fails)
		vc.eval(st, recvExpr)
		if v, ok := vc.eval(st, call.Args[0]).(*Scalar); ok && v.S == SRef {
			if et, isPtr := derefType(vc.typeOf(call.Args[0])); isPtr && classify(et) == kStruct {
				p := place{kind: pHeap, ref: v.T, owner: typeKey(et), typ: et}
				vc.storePlace(st, p, vc.freshVal(et, "decoded"))
			}
		}
		return sc(vc.declare("gob.err", SRef), SRef), true
	case pkg == "errors" && name == "New":
		vc.evalArgs(st, call)
		e := vc.declare("errors.New", SRef)
		vc.assume(st, not(eq(e, "nil")))
		return sc(e, SRef), true
	case pkg == "sync" && rt == "WaitGroup":
		vc.evalArgs(st, call)
		return &TupleV{}, true
	}
	return nil, false
}

func (vc *VC) popcount(t string, w int) string {
	var parts []string
	for i := 0; i < w; i++ {
		parts = append(parts, fmt.Sprintf("((_ zero_extend %d) ((_ extract %d %d) %s))", w-1, i, i, t))
	}
	return sx("bvadd", parts...)
}

// ---- atomics --------------------------------------------------------------------------------------

// atomicStable reports whether atomic loads read the modelled heap (true) or return arbitrary values
// (interference from other goroutines; the default).
func (vc *VC) atomicStable() bool {
	if vc.fn != nil && vc.fn.Spec != nil && vc.fn.Spec.Flags["atomics_stable"] {
		return true
	}
	return vc.specMode
}

func (vc *VC) atomicMethod(st *State, rt, name string, recvExpr ast.Expr, call *ast.CallExpr) Val {
	p := vc.resolvePlace(st, recvExpr)
	s, _ := isAtomicType(p.typ)
	if s == "" {
		// pointer to atomic
		panic(unsupported("atomic method on %s", p.typ))
	}
	p.typ = p.typ // leaf
	read := func() string {
		vc.inAtomic++
		defer func() { vc.inAtomic-- }()
		if vc.atomicStable() {
			return vc.loadPlace(st, p).(*Scalar).T
		}
		cur := vc.loadPlace(st, p).(*Scalar).T // access hook
		v := vc.declare("atomic."+name, s)
		vc.atomInv(st, p, v, s, false, call.Pos())
		if p.kind == pHeap {
			if rule, ok, _ := guardOf(p.owner + p.path); ok && rule == gAtomicSW {
				// written only under the shard write lock: stable while this goroutine holds a shard lock
				// (A-SHARDLOCK: it is the lock of the entry's home shard), or while the object is fresh
				return vc.define("atomic."+name, s, ite(or(vc.anyHeld(st, "RBMutex", true), vc.freshRef(p.ref)), cur, v))
			}
		}
		return v
	}
	write := func(v string) {
		vc.inAtomic++
		defer func() { vc.inAtomic-- }()
		vc.atomInv(st, p, v, s, true, call.Pos())
		vc.storePlace(st, p, sc(v, s))
	}
	switch name {
	case "Load":
		r := read()
		if p.kind == pHeap && lastLoadTracked[p.owner+p.path] && !vc.specMode {
			// ghost: the value this goroutine last loaded from the field (contracts refer to it as loaded(x.f.Load()))
			h := "gh.lastload<" + p.owner + p.path + ">"
			srt := ArrSort(SRef, Sort(s))
			vc.heapSet(st, h, srt, store(vc.heapGet(st, h, srt), p.ref, r))
		}
		return sc(r, s)
	case "Store":
		v := vc.evalScalar(st, call.Args[0])
		write(v.T)
		return &TupleV{}
	case "Swap":
		old := read()
		v := vc.evalScalar(st, call.Args[0])
		write(v.T)
		return sc(old, s)
	case "Add":
		old := read()
		v := vc.evalScalar(st, call.Args[0])
		nv := vc.define("atomic.add", s, sx("bvadd", old, v.T))
		write(nv)
		return sc(nv, s)
	case "CompareAndSwap":
		old := read()
		o := vc.evalScalar(st, call.Args[0])
		n := vc.evalScalar(st, call.Args[1])
		okc := vc.define("cas", SBool, eq(old, o.T))
		write(ite(okc, n.T, old))
		return sc(okc, SBool)
	}
	panic(unsupported("atomic method %s", name))
}

func (vc *VC) atomicFunc(st *State, name string, call *ast.CallExpr) Val {
	pv, ok := vc.eval(st, call.Args[0]).(*PtrV)
	if !ok {
		panic(unsupported("atomic.%s on non-place pointer", name))
	}
	p := pv.P
	s := vc.sortOf(p.typ)
	vc.inAtomic++
	defer func() { vc.inAtomic-- }()
	read := func() string {
		if vc.atomicStable() {
			return vc.loadPlace(st, p).(*Scalar).T
		}
		vc.loadPlace(st, p)
		return vc.declare("atomic."+name, s)
	}
	switch {
	case strings.HasPrefix(name, "Load"):
		return sc(read(), s)
	case strings.HasPrefix(name, "Store"):
		v := vc.evalScalar(st, call.Args[1])
		vc.storePlace(st, p, sc(v.T, s))
		if p.kind == pHeap && tokenFields[p.owner+p.path] {
			// ownership token: storing nil takes it, storing the buffer pointer hands it back
			vc.heapSet(st, "gh.token", SBool, eq(v.T, "nil"))
		}
		return &TupleV{}
	case strings.HasPrefix(name, "CompareAndSwap"):
		old := read()
		o := vc.evalScalar(st, call.Args[1])
		n := vc.evalScalar(st, call.Args[2])
		okc := vc.define("cas", SBool, eq(old, o.T))
		vc.storePlace(st, p, sc(ite(okc, n.T, old), s))
		if p.kind == pHeap && tokenFields[p.owner+p.path] {
			vc.heapSet(st, "gh.token", SBool, ite(okc, eq(n.T, "nil"), vc.heapGet(st, "gh.token", SBool)))
		}
		return sc(okc, SBool)
	case strings.HasPrefix(name, "Add"):
		old := read()
		v := vc.evalScalar(st, call.Args[1])
		nv := vc.define("atomic.add", s, sx("bvadd", old, v.T))
		vc.storePlace(st, p, sc(nv, s))
		return sc(nv, s)
	}
	panic(unsupported("atomic.%s", name))
}

// atomic fields whose last loaded value is recorded per object (DSL: loaded(x.f.Load()))
var lastLoadTracked = map[string]bool{"Entry.expire": true}

// ---- locks -----------------------------------------------------------------------------------------

// Lock state lives in heap arrays so that it merges and havocs like everything else:
//   lockW<id>[ref] : this goroutine holds the lock in write mode
//   lockR<id>[ref] : this goroutine holds the lock in read mode
// where id names the lock kind (Store.policyMu, RBMutex, Group.mu) and ref identifies the instance.

func (vc *VC) lockIdent(st *State, e ast.Expr) (id string, ref string) {
	t := vc.typeOf(e)
	if _, isPtr := t.Underlying().(*types.Pointer); isPtr {
		// *RBMutex
		v := vc.evalScalar(st, e)
		et, _ := derefType(t)
		return typeKey(et), v.T
	}
	p := vc.resolvePlace(st, e)
	if p.kind != pHeap {
		panic(unsupported("lock that is not a field of a heap object"))
	}
	return p.owner + p.path, p.ref
}

func (vc *VC) lockHeld(st *State, e ast.Expr, readMode bool) string {
	id, ref := vc.lockIdent(st, e)
	w := sel(vc.heapGet(st, "lockW<"+id+">", ArrSort(SRef, SBool)), ref)
	if !readMode {
		return w
	}
	r := sel(vc.heapGet(st, "lockR<"+id+">", ArrSort(SRef, SBool)), ref)
	return or(w, r)
}

func (vc *VC) lockOp(st *State, recvExpr ast.Expr, op string, call *ast.CallExpr) {
	id, ref := vc.lockIdent(st, recvExpr)
	vc.evalArgs(st, call)
	owner := vc.ownerOfLockExpr(st, recvExpr)
	hw, hr := "lockW<"+id+">", "lockR<"+id+">"
	aw, ar := "anyW<"+id+">", "anyR<"+id+">"
	srt := ArrSort(SRef, SBool)
	w := vc.heapGet(st, hw, srt)
	r := vc.heapGet(st, hr, srt)
	switch op {
	case "Lock":
		vc.oblige(st, "lock", "acquire", call.Pos(), and(not(sel(w, ref)), not(sel(r, ref))), "lock "+id+" must not already be held by this goroutine (self-deadlock)")
		vc.oblige(st, "lock", "acquire", call.Pos(), not(vc.heapGet(st, aw, SBool)), "at most one "+id+" is held in write mode at a time")
		vc.lockOrder(st, id, ref, call.Pos())
		vc.heapSet(st, hw, srt, store(w, ref, "true"))
		vc.heapSet(st, aw, SBool, "true")
		vc.onAcquire(st, id, ref, true)
		vc.lockAcquired(st, id, true, owner, call.Pos())
	case "RLock":
		vc.oblige(st, "lock", "acquire", call.Pos(), not(sel(w, ref)), "read lock "+id+" must not be taken while holding it in write mode")
		vc.lockOrder(st, id, ref, call.Pos())
		vc.heapSet(st, hr, srt, store(r, ref, "true"))
		vc.heapSet(st, ar, SBool, "true")
		vc.onAcquire(st, id, ref, false)
		vc.lockAcquired(st, id, false, owner, call.Pos())
	case "Unlock":
		vc.oblige(st, "lock", "release", call.Pos(), sel(w, ref), "unlock of "+id+" requires the lock to be held")
		vc.onRelease(st, id, ref, true, call.Pos())
		vc.lockReleased(st, id, true, owner, call.Pos())
		vc.heapSet(st, hw, srt, store(w, ref, "false"))
		vc.heapSet(st, aw, SBool, "false")
	case "RUnlock":
		vc.oblige(st, "lock", "release", call.Pos(), sel(r, ref), "read-unlock of "+id+" requires the read lock to be held")
		vc.onRelease(st, id, ref, false, call.Pos())
		vc.lockReleased(st, id, false, owner, call.Pos())
		vc.heapSet(st, hr, srt, store(r, ref, "false"))
		vc.heapSet(st, ar, SBool, "false")
	case "TryLock", "TryRLock":
		panic(unsupported("TryLock"))
	}
}

// lock order: policyMu before any shard lock; Group.mu is a leaf lock (nothing is acquired while it is held).
func (vc *VC) lockOrder(st *State, id, ref string, pos token.Pos) {
	switch id {
	case "Store.policyMu":
		vc.oblige(st, "lock", "order", pos, not(vc.anyHeld(st, "RBMutex", true)),
			"policy lock must be taken before (never while holding) a shard lock")
	}
	if id != "Group.mu" {
		vc.oblige(st, "lock", "order", pos, not(vc.anyHeld(st, "Group.mu", false)), "singleflight lock is a leaf lock: no lock is acquired while it is held")
	}
}

// monitors: registered by the property layer (see monitor.go)
func (vc *VC) onAcquire(st *State, id, ref string, write bool) {
	for _, m := range vc.prog.monitors[id] {
		m.acquire(vc, st, ref, write)
	}
}

func (vc *VC) onRelease(st *State, id, ref string, write bool, pos token.Pos) {
	for _, m := range vc.prog.monitors[id] {
		m.release(vc, st, ref, write, pos)
	}
}

// ---- channels (abstract) -----------------------------------------------------------------------------

func (vc *VC) chanRecv(st *State, x *ast.UnaryExpr) Val {
	vc.eval(st, x.X)
	t := vc.typeOf(x)
	if tup, ok := t.(*types.Tuple); ok {
		return &TupleV{[]Val{vc.freshVal(tup.At(0).Type(), "recv"), sc(vc.declare("recv.ok", SBool), SBool)}}
	}
	vc.blockingOp(st, x.Pos(), "recv", x.X)
	return vc.freshVal(t, "recv")
}

func (vc *VC) chanSend(st *State, s *ast.SendStmt) {
	vc.eval(st, s.Chan)
	v := vc.evalAssignable(st, s.Value)
	vc.blockingOp(st, s.Pos(), "send", s.Chan)
	// channel contract: chansend_<field> on the owner type (message invariant as requires, ghost effects)
	if se, ok := unparen(s.Chan).(*ast.SelectorExpr); ok {
		if selInfo, ok := vc.info.Selections[se]; ok && selInfo.Kind() == types.FieldVal {
			key := ownerName(selInfo.Recv()) + ".chansend_" + se.Sel.Name
			if si, ok := vc.prog.fspec[key]; ok {
				recv := vc.eval(st, se.X)
				vc.callModular(st, nil, si, recv, []Val{v}, s.Pos(), key)
			}
		}
	}
}

// blockingOp is a hook for the C10 structural termination obligations.
func (vc *VC) blockingOp(st *State, pos token.Pos, what string, ch ast.Expr) {
	if vc.inSelect > 0 {
		return
	}
	vc.blocking = append(vc.blocking, blockSite{Pos: vc.prog.pos(pos), What: what, Chan: exprString(ch), PC: st.pc})
	if vc.dry == 0 && !vc.specMode {
		// C10 (sufficient condition): a channel operation outside a select has no cancellation alternative; it
		// terminates only if its counterpart is alive, which no contract here establishes
		vc.oblige(st, "blocking", what, pos, "false", what+" on "+exprString(ch)+" outside a select: may block forever once its counterpart has exited")
	}
}

type blockSite struct {
	Pos, What, Chan, PC string
}

// accessHook: called on every heap leaf access (C19 lock obligations hook in here).
func (vc *VC) accessHook(st *State, p place, sub string, write bool) {
	if vc.specMode {
		return
	}
	vc.guardCheck(st, p, sub, write)
}

func (vc *VC) mapAccessHook(st *State, m string, mt *types.Map, write bool) {
	if vc.specMode {
		return
	}
	vc.guardCheckMap(st, m, mt, write)
}

// atomInv: an atomic field may carry an invariant on its values, declared as a pure function
// atominv_<Owner>_<field>(obj, v) in a contract file. Loads outside the writer's lock return an
// arbitrary value satisfying it; every store must establish it.
func (vc *VC) atomInv(st *State, p place, v string, s Sort, isWrite bool, pos token.Pos) {
	if p.kind != pHeap || vc.specMode {
		return
	}
	key := "atominv_" + strings.NewReplacer(".", "_").Replace(strings.TrimPrefix(p.owner+p.path, "."))
	var fi *FuncInfo
	for _, f := range vc.prog.pure {
		if f.Obj.Name() == key {
			fi = f
		}
	}
	if fi == nil {
		return
	}
	saveMode, saveOld := vc.specMode, vc.oldState
	vc.specMode = true
	if vc.oldState == nil {
		vc.oldState = st
	}
	t := vc.evalPure(st, fi, []Val{sc(p.ref, SRef), sc(v, s)}, nil).(*Scalar).T
	vc.specMode, vc.oldState = saveMode, saveOld
	if isWrite {
		vc.oblige(st, "atominv", lastPart(key), pos, t, "store establishes the invariant of atomic "+p.owner+p.path)
	} else {
		save := vc.curLabel
		vc.curLabel = "atominv." + p.owner + p.path
		vc.assume(st, t)
		vc.curLabel = save
	}
}
