package main

// Concrete replay of solver models against the real code (go test -overlay).

func tryConcreteReplay(prog *Program, verifDir string, vc *VC, o *Obligation, model map[string]string, rep *Replay) {
}
