package main

// Per-function verification driver.

import (
	"fmt"
	"go/ast"
	"go/types"
	"runtime/debug"
	"sort"
	"strings"
	"sync"
	"time"
)

type FuncResult struct {
	Key     string
	Obls    []*Obligation
	Mods    []string
	Err     error
	Notes   []string
	Blocking []blockSite
	Spawned []string
	vc      *VC
	GenS    float64
}

var verifyCache = map[string]*FuncResult{}
var inProgress = map[string]bool{}

func (p *Program) verifyFunc(fi *FuncInfo) (res *FuncResult) {
	if r, ok := verifyCache[fi.Key]; ok {
		return r
	}
	if inProgress[fi.Key] {
		return &FuncResult{Key: fi.Key, Err: fmt.Errorf("recursive dependency on %s", fi.Key)}
	}
	inProgress[fi.Key] = true
	t0 := time.Now()
	vc := newVC(p, fi)
	vc.lockTrack = p.lockTrack
	res = &FuncResult{Key: fi.Key, vc: vc}
	defer func() {
		delete(inProgress, fi.Key)
		if r := recover(); r != nil {
			if u, ok := r.(unsupportedErr); ok {
				res.Err = u
			} else {
				res.Err = fmt.Errorf("internal error verifying %s: %v\n%s", fi.Key, r, debug.Stack())
			}
		}
		res.Obls = vc.obls
		res.Mods = sortedKeys(vc.written)
		res.Notes = vc.notes
		res.Blocking = vc.blocking
		res.Spawned = vc.spawned
		res.GenS = time.Since(t0).Seconds()
		verifyCache[fi.Key] = res
	}()
	vc.verifyBody()
	return res
}

func (vc *VC) verifyBody() {
	fi := vc.fn
	info := fi.Pkg.TypesInfo
	st := &State{vars: map[types.Object]Val{}, heap: map[string]string{}, pc: "true"}
	sig := fi.Obj.Type().(*types.Signature)
	var recv Val
	var args []Val
	var recvObj types.Object
	var paramObjs []types.Object
	mk := func(o types.Object, name string) Val {
		v := vc.freshVal(o.Type(), "in."+name)
		vc.registerInput(name, v)
		if s, ok := v.(*Scalar); ok && s.S == SRef {
			vc.assumeAllocated(st, s.T)
		}
		return v
	}
	if fi.Decl.Recv != nil && len(fi.Decl.Recv.List) > 0 && len(fi.Decl.Recv.List[0].Names) > 0 {
		recvObj = info.ObjectOf(fi.Decl.Recv.List[0].Names[0])
		recv = mk(recvObj, recvObj.Name())
		if s, ok := recv.(*Scalar); ok && s.S == SRef {
			// methods are never invoked on nil receivers in this code base; a contract may say otherwise
			vc.assume(st, not(eq(s.T, "nil")))
		}
	}
	for _, f := range fi.Decl.Type.Params.List {
		for _, n := range f.Names {
			o := info.ObjectOf(n)
			paramObjs = append(paramObjs, o)
			args = append(args, mk(o, n.Name))
		}
	}
	_ = sig
	vc.entry = st.clone()
	// preconditions
	if fi.Spec != nil {
		b := vc.bindSpec(fi.Spec, recv, args, nil)
		for _, c := range fi.Spec.Clauses {
			if c.Kind == "requires" {
				vc.curLabel = "req." + c.Name
				vc.assume(st, vc.evalClause(st, fi.Spec, c.Expr, st))
				vc.curLabel = ""
			}
		}
		vc.unbind(b)
	}
	// body
	fr := &frame{breaks: map[string][]*State{}, conts: map[string][]*State{}, fn: fi}
	vc.frames = append(vc.frames, fr)
	if recvObj != nil {
		st.vars[recvObj] = recv
	}
	for i, o := range paramObjs {
		st.vars[o] = args[i]
	}
	if fi.Decl.Type.Results != nil {
		for _, f := range fi.Decl.Type.Results.List {
			t := info.TypeOf(f.Type)
			if len(f.Names) == 0 {
				v := types.NewVar(0, vc.pkg, "ret$", t)
				fr.results = append(fr.results, v)
				st.vars[v] = vc.zeroVal(t)
				continue
			}
			for _, n := range f.Names {
				obj := info.ObjectOf(n).(*types.Var)
				fr.results = append(fr.results, obj)
				st.vars[obj] = vc.zeroVal(t)
			}
		}
	}
	end := vc.execBlock(st.clone(), fi.Decl.Body.List)
	if end != nil {
		vc.runDefers(end)
		fr.returns = append(fr.returns, end)
	}
	vc.frames = vc.frames[:0]
	exit := vc.merge(fr.returns)
	if exit == nil {
		return
	}
	// vacuity canary: `false` must not be provable at the (reachable) exit
	vc.canary = &Obligation{Name: fi.Key + "/canary", Func: fi.Key, Kind: "canary", Pos: vc.prog.pos(fi.Decl.Pos()),
		DeclN: len(vc.decls), TraceN: len(vc.trace), PC: exit.pc, Goal: "false"}
	if fi.Spec == nil {
		return
	}
	var results []Val
	for _, r := range fr.results {
		results = append(results, exit.vars[r])
	}
	// ghost effects, then postconditions
	b := vc.bindSpec(fi.Spec, recv, args, results)
	vc.frames = append(vc.frames, fr)
	vc.runEffects(exit, fi.Spec, vc.entry)
	vc.frames = vc.frames[:0]
	for _, c := range fi.Spec.Clauses {
		switch c.Kind {
		case "ensures":
			t := vc.evalClause(exit, fi.Spec, c.Expr, vc.entry)
			vc.oblige(exit, "post", c.Name, c.Pos, t, "postcondition "+c.Name)
			// later postconditions may use earlier ones as lemmas (each is itself an obligation)
			vc.curLabel = "post." + c.Name
			vc.assume(exit, t)
			vc.curLabel = ""
		}
	}
	vc.unbind(b)
	// declared frame
	decl := vc.declaredMods(fi.Spec, recv, args)
	hasDecl := false
	for _, c := range fi.Spec.Clauses {
		if c.Kind == "modifies" {
			hasDecl = true
		}
	}
	if hasDecl {
		var extra []string
		for _, w := range sortedKeys(vc.written) {
			if !contains(decl, w) && w != "alloc" {
				extra = append(extra, w)
			}
		}
		goal := "true"
		if len(extra) > 0 {
			goal = "false"
		}
		o := vc.oblige(exit, "frame", "modifies", fi.Decl.Pos(), goal, "writes outside the declared frame: "+strings.Join(extra, ", "))
		_ = o
	}
}

func (vc *VC) registerInput(name string, v Val) {
	switch x := v.(type) {
	case *Scalar:
		vc.inputs[name] = x.T
	case *SliceV:
		vc.inputs[name+"#arr"] = x.Arr
		vc.inputs[name+"#len"] = x.Len
	case *StructV:
		for _, f := range x.Names {
			vc.registerInput(name+"."+f, x.F[f])
		}
	}
}

// runEffects executes ghost effect statements of a spec at function exit.
func (vc *VC) runEffects(st *State, si *SpecInfo, entry *State) {
	if len(si.Effects) == 0 {
		return
	}
	saveInfo, saveMode, saveOld := vc.info, vc.specMode, vc.oldState
	vc.info, vc.specMode, vc.oldState = si.Pkg.TypesInfo, true, entry
	defer func() { vc.info, vc.specMode, vc.oldState = saveInfo, saveMode, saveOld }()
	for _, s := range si.Effects {
		vc.execEffect(st, s)
	}
}

func (vc *VC) execEffect(st *State, s ast.Stmt) {
	switch x := s.(type) {
	case *ast.ExprStmt:
		call, ok := x.X.(*ast.CallExpr)
		if !ok {
			panic(unsupported("ghost effect %T", x.X))
		}
		id, _ := call.Fun.(*ast.Ident)
		if id != nil && id.Name == "set" {
			target, ok := call.Args[0].(*ast.CallExpr)
			if !ok {
				panic(unsupported("set() target must be a ghost function application"))
			}
			v := vc.evalScalar(st, call.Args[1])
			vc.ghostWrite(st, target, v.T)
			return
		}
		if id != nil && id.Name == "setall" {
			// setall(gh_f(a1..an-1, _), v): every point of the last dimension becomes v
			target, ok := call.Args[0].(*ast.CallExpr)
			if !ok {
				panic(unsupported("setall() target must be a ghost function application"))
			}
			v := vc.evalScalar(st, call.Args[1])
			fn, _ := vc.calleeFunc(target)
			name, sorts, res, hs := vc.ghostHeap(fn)
			h := vc.heapGet(st, name, hs)
			var idx []string
			for _, a := range target.Args[:len(target.Args)-1] {
				idx = append(idx, vc.evalScalar(st, a).T)
			}
			cst := fmt.Sprintf("((as const %s) %s)", ArrSort(sorts[len(sorts)-1], res), v.T)
			vc.heapSet(st, name, hs, nestedStore(h, idx, cst))
			return
		}
		if id != nil && id.Name == "havoc" {
			target := call.Args[0].(*ast.CallExpr)
			fn, _ := vc.calleeFunc(target)
			name, _, _, _ := vc.ghostHeap(fn)
			vc.havocHeap(st, name)
			return
		}
		panic(unsupported("ghost effect call"))
	case *ast.IfStmt:
		c := vc.evalBool(st, x.Cond)
		t := st.clone()
		t.pc = vc.newPC(and(st.pc, c))
		e := st.clone()
		e.pc = vc.newPC(and(st.pc, not(c)))
		for _, bs := range x.Body.List {
			vc.execEffect(t, bs)
		}
		if x.Else != nil {
			if eb, ok := x.Else.(*ast.BlockStmt); ok {
				for _, bs := range eb.List {
					vc.execEffect(e, bs)
				}
			} else {
				vc.execEffect(e, x.Else)
			}
		}
		m := vc.merge2(t, e)
		st.vars, st.heap = m.vars, m.heap
	default:
		panic(unsupported("ghost effect statement %T", s))
	}
}

// verifyLemma: a contract without code; parameters are universally quantified.
func (p *Program) verifyLemma(name string, si *SpecInfo) *FuncResult {
	if r, ok := verifyCache[name]; ok {
		return r
	}
	vc := newVC(p, nil)
	vc.pkg = si.Pkg.Types
	vc.info = si.Pkg.TypesInfo
	vc.lemmaName = name
	res := &FuncResult{Key: name, vc: vc}
	defer func() {
		if r := recover(); r != nil {
			if u, ok := r.(unsupportedErr); ok {
				res.Err = u
			} else {
				res.Err = fmt.Errorf("internal error in lemma %s: %v\n%s", name, r, debug.Stack())
			}
		}
		res.Obls = vc.obls
		res.Notes = vc.notes
		verifyCache[name] = res
	}()
	st := &State{vars: map[types.Object]Val{}, heap: map[string]string{}, pc: "true"}
	_, ps, _ := specParamObjs(si)
	var args []Val
	for _, o := range ps {
		v := vc.freshVal(o.Type(), "in."+o.Name())
		vc.registerInput(o.Name(), v)
		args = append(args, v)
	}
	vc.entry = st.clone()
	b := vc.bindSpec(si, nil, args, nil)
	for _, c := range si.Clauses {
		if c.Kind == "requires" {
			vc.assume(st, vc.evalClause(st, si, c.Expr, st))
		}
	}
	for _, c := range si.Clauses {
		if c.Kind == "ensures" {
			t := vc.evalClause(st, si, c.Expr, st)
			vc.oblige(st, "lemma", c.Name, c.Pos, t, "lemma conclusion "+c.Name)
		}
	}
	vc.unbind(b)
	return res
}

// ---- discharging ------------------------------------------------------------------------------------------

func dischargeAll(results []*FuncResult, timeout time.Duration, workdir string, par int, filter func(o *Obligation) bool) {
	type job struct {
		r *FuncResult
		o *Obligation
	}
	var jobs []job
	for _, r := range results {
		for _, o := range r.Obls {
			if filter != nil && !filter(o) {
				continue
			}
			if o.Res.Status != "" {
				continue
			}
			jobs = append(jobs, job{r, o})
		}
	}
	sort.SliceStable(jobs, func(i, j int) bool { return jobs[i].o.Name < jobs[j].o.Name })
	ch := make(chan job)
	var wg sync.WaitGroup
	for i := 0; i < par; i++ {
		wg.Add(1)
		go func() {
			defer wg.Done()
			for j := range ch {
				if j.o.Goal == "true" || j.o.PC == "false" {
					j.o.Res = SolveResult{Status: "unsat", Solver: "trivial"}
					continue
				}
				q := j.r.vc.query(j.o, true)
				j.o.Res = solve(q, timeout, workdir, j.o.Name, true)
			}
		}()
	}
	for _, j := range jobs {
		ch <- j
	}
	close(ch)
	wg.Wait()
}
