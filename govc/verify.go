package main

// Per-function verification driver.

import (
	"fmt"
	"go/ast"
	"go/token"
	"go/types"
	"runtime/debug"
	"strings"
	"sync"
	"time"
)

type FuncResult struct {
	Key     string
	Obls    []*Obligation
	Mods    []string
	Err     error
	Notes   []string
	Blocking []blockSite
	Spawned []string
	vc      *VC
	GenS    float64
}

var verifyCache = map[string]*FuncResult{}
var inProgress = map[string]bool{}

func (p *Program) verifyFunc(fi *FuncInfo) (res *FuncResult) {
	if r, ok := verifyCache[fi.Key]; ok {
		return r
	}
	if inProgress[fi.Key] {
		return &FuncResult{Key: fi.Key, Err: fmt.Errorf("recursive dependency on %s", fi.Key)}
	}
	inProgress[fi.Key] = true
	t0 := time.Now()
	vc := newVC(p, fi)
	vc.lockTrack = p.lockTrack
	res = &FuncResult{Key: fi.Key, vc: vc}
	defer func() {
		delete(inProgress, fi.Key)
		if r := recover(); r != nil {
			if u, ok := r.(unsupportedErr); ok {
				res.Err = u
			} else {
				res.Err = fmt.Errorf("internal error verifying %s: %v\n%s", fi.Key, r, debug.Stack())
			}
		}
		res.Obls = vc.obls
		res.Mods = sortedKeys(vc.written)
		res.Notes = vc.notes
		res.Blocking = vc.blocking
		res.Spawned = vc.spawned
		res.GenS = time.Since(t0).Seconds()
		verifyCache[fi.Key] = res
	}()
	vc.verifyBody()
	if fi.Spec != nil && fi.Spec.Flags["split_paths"] {
		p.verifySplit(fi, res, vc)
	}
	return res
}

const maxPaths = 400

// verifySplit re-executes the function once per control-flow path (branch decisions forced by an oracle)
// and replaces the obligations of the merged run by per-path obligations grouped by name. The merged run
// is kept for the frame (written heaps), lock summary and canary.
func (p *Program) verifySplit(fi *FuncInfo, res *FuncResult, merged *VC) {
	if len(merged.obls) == 0 {
		return
	}
	byName := map[string]*Obligation{}
	var order []*Obligation
	work := [][]bool{{}}
	paths := 0
	for len(work) > 0 {
		forced := work[len(work)-1]
		work = work[:len(work)-1]
		paths++
		if paths > maxPaths {
			panic(unsupported("more than %d paths in %s (split_paths)", maxPaths, fi.Key))
		}
		vc := newVC(p, fi)
		vc.oracle = &pathOracle{forced: forced}
		vc.verifyBody()
		for i := len(forced); i < len(vc.oracle.taken); i++ {
			alt := append(append([]bool{}, vc.oracle.taken[:i]...), false)
			work = append(work, alt)
		}
		for _, o := range vc.obls {
			g, ok := byName[o.Name]
			if !ok {
				g = &Obligation{Name: o.Name, Func: o.Func, Kind: o.Kind, Pos: o.Pos, Desc: o.Desc, Goal: "split", PC: "true", vc: vc}
				byName[o.Name] = g
				order = append(order, g)
			}
			g.Parts = append(g.Parts, o)
		}
		for _, n := range vc.notes {
			merged.note(n)
		}
	}
	merged.obls = order
	merged.note(fmt.Sprintf("path-split: %d paths", paths))
}

func (vc *VC) verifyBody() {
	fi := vc.fn
	info := fi.Pkg.TypesInfo
	st := &State{vars: map[types.Object]Val{}, heap: map[string]string{}, pc: "true"}
	sig := fi.Obj.Type().(*types.Signature)
	var recv Val
	var args []Val
	var recvObj types.Object
	var paramObjs []types.Object
	mk := func(o types.Object, name string) Val {
		v := vc.freshVal(o.Type(), "in."+name)
		vc.registerInput(name, v)
		if s, ok := v.(*Scalar); ok && s.S == SRef {
			vc.assumeAllocated(st, s.T)
		}
		return v
	}
	if fi.Decl.Recv != nil && len(fi.Decl.Recv.List) > 0 && len(fi.Decl.Recv.List[0].Names) > 0 {
		recvObj = info.ObjectOf(fi.Decl.Recv.List[0].Names[0])
		recv = mk(recvObj, recvObj.Name())
		if s, ok := recv.(*Scalar); ok && s.S == SRef {
			// methods are never invoked on nil receivers in this code base; a contract may say otherwise
			vc.assume(st, not(eq(s.T, "nil")))
		}
	}
	for _, f := range fi.Decl.Type.Params.List {
		for _, n := range f.Names {
			o := info.ObjectOf(n)
			paramObjs = append(paramObjs, o)
			args = append(args, mk(o, n.Name))
		}
	}
	_ = sig
	vc.entry = st.clone()
	vc.specRecv, vc.specArgs, vc.panicPosts = recv, args, true
	vc.assumeEntryLocks(st, fi)
	// preconditions
	if fi.Spec != nil {
		b := vc.bindSpec(fi.Spec, recv, args, nil)
		for _, c := range fi.Spec.Clauses {
			if c.Kind == "requires" || c.Kind == "assumes" {
				// `assumes`: a trusted assumption about the arguments (listed in the evidence); unlike
				// `requires` it is not an obligation at call sites
				vc.curLabel = "req." + c.Name
				vc.assume(st, vc.evalClause(st, fi.Spec, c.Expr, st))
				vc.curLabel = ""
			}
		}
		vc.unbind(b)
	}
	// body
	fr := &frame{breaks: map[string][]*State{}, conts: map[string][]*State{}, fn: fi}
	vc.frames = append(vc.frames, fr)
	if recvObj != nil {
		st.vars[recvObj] = recv
		vc.entry.vars[recvObj] = recv
	}
	for i, o := range paramObjs {
		st.vars[o] = args[i]
		vc.entry.vars[o] = args[i]
	}
	if fi.Decl.Type.Results != nil {
		for _, f := range fi.Decl.Type.Results.List {
			t := info.TypeOf(f.Type)
			if len(f.Names) == 0 {
				v := types.NewVar(0, vc.pkg, "ret$", t)
				fr.results = append(fr.results, v)
				st.vars[v] = vc.zeroVal(t)
				continue
			}
			for _, n := range f.Names {
				obj := info.ObjectOf(n).(*types.Var)
				fr.results = append(fr.results, obj)
				st.vars[obj] = vc.zeroVal(t)
			}
		}
	}
	end := vc.execBlock(st.clone(), fi.Decl.Body.List)
	if end != nil {
		vc.runDefers(end)
		fr.returns = append(fr.returns, end)
	}
	vc.processUnwinds(fr, nil)
	vc.frames = vc.frames[:0]
	exit := vc.merge(fr.returns)
	if exit == nil {
		return
	}
	vc.obligeExitLocks(exit, fi)
	// vacuity canary: `false` must not be provable at the (reachable) exit
	vc.canary = &Obligation{Name: fi.Key + "/canary", Func: fi.Key, Kind: "canary", Pos: vc.prog.pos(fi.Decl.Pos()),
		DeclN: len(vc.decls), TraceN: len(vc.trace), PC: exit.pc, Goal: "false"}
	if fi.Spec == nil {
		return
	}
	var results []Val
	for _, r := range fr.results {
		results = append(results, exit.vars[r])
	}
	// ghost effects, then postconditions
	b := vc.bindSpec(fi.Spec, recv, args, results)
	vc.frames = append(vc.frames, fr)
	vc.exitEffects(exit, fi)
	vc.frames = vc.frames[:0]
	for _, c := range fi.Spec.Clauses {
		switch c.Kind {
		case "ensures":
			t := vc.evalClause(exit, fi.Spec, c.Expr, vc.entry)
			vc.oblige(exit, "post", c.Name, c.Pos, t, "postcondition "+c.Name)
			// later postconditions may use earlier ones as lemmas (each is itself an obligation) - except a
			// postcondition listed as an open known finding: it is known NOT to hold, and assuming it would
			// make the clauses after it provable from a falsehood
			if !knownFailing[fi.Key+"/post."+c.Name] {
				vc.curLabel = "post." + c.Name
				vc.assume(exit, t)
				vc.curLabel = ""
			}
		}
	}
	vc.unbind(b)
	// object-granular frames (`touches`): only the named objects' slots of the field array change
	if tm := vc.touchedObjects(vc.entry, fi.Spec, recv, args); len(tm) > 0 {
		for _, h := range sortedKeys(boolKeysOf(tm)) {
			srt, ok := vc.heapSort[h]
			if !ok || !vc.written[h] {
				continue
			}
			var ne []string
			for _, r := range tm[h] {
				ne = append(ne, not(eq("x?fr", r)))
			}
			goal := fmt.Sprintf("(forall ((x?fr Ref)) (=> %s (= (select %s x?fr) (select %s x?fr))))", and(ne...), vc.heapGet(exit, h, srt), vc.heapGet(vc.entry, h, srt))
			vc.oblige(exit, "frame", h, fi.Decl.Pos(), goal, "only the objects named in the touches clause change in field "+h)
		}
	}
	// conditional frames: quietunless(cond, heaps...): when cond is false the heaps are unchanged
	for k := range vc.quietHeaps(vc.entry, fi.Spec, recv, args, false) {
		parts := strings.SplitN(k, "|", 2)
		h, cond := parts[0], parts[1]
		srt, ok := vc.heapSort[h]
		if !ok {
			continue
		}
		vc.oblige(exit, "frame", "quiet."+h, fi.Decl.Pos(), implies(not(cond), eq(vc.heapGet(exit, h, srt), vc.heapGet(vc.entry, h, srt))),
			"heap "+h+" is left alone unless the quietunless condition holds")
	}
	// declared frame
	decl := vc.declaredMods(fi.Spec, recv, args)
	hasDecl := false
	for _, c := range fi.Spec.Clauses {
		if c.Kind == "modifies" {
			hasDecl = true
		}
	}
	if hasDecl {
		var extra []string
		for _, w := range sortedKeys(vc.written) {
			if !contains(decl, w) && w != "alloc" {
				extra = append(extra, w)
			}
		}
		goal := "true"
		if len(extra) > 0 {
			goal = "false"
		}
		o := vc.oblige(exit, "frame", "modifies", fi.Decl.Pos(), goal, "writes outside the declared frame: "+strings.Join(extra, ", "))
		_ = o
	}
}

func (vc *VC) registerInput(name string, v Val) {
	switch x := v.(type) {
	case *Scalar:
		vc.inputs[name] = x.T
	case *SliceV:
		vc.inputs[name+"#arr"] = x.Arr
		vc.inputs[name+"#len"] = x.Len
	case *StructV:
		for _, f := range x.Names {
			vc.registerInput(name+"."+f, x.F[f])
		}
	}
}

// runEffects executes ghost effect statements of a spec at function exit.
func (vc *VC) runEffects(st *State, si *SpecInfo, entry *State) {
	if len(si.Effects) == 0 {
		return
	}
	saveInfo, saveMode, saveOld := vc.info, vc.specMode, vc.oldState
	vc.info, vc.specMode, vc.oldState = si.Pkg.TypesInfo, true, entry
	defer func() { vc.info, vc.specMode, vc.oldState = saveInfo, saveMode, saveOld }()
	for _, s := range si.Effects {
		vc.execEffect(st, s)
	}
}

func (vc *VC) execEffect(st *State, s ast.Stmt) {
	switch x := s.(type) {
	case *ast.ExprStmt:
		call, ok := x.X.(*ast.CallExpr)
		if !ok {
			panic(unsupported("ghost effect %T", x.X))
		}
		id, _ := call.Fun.(*ast.Ident)
		if id != nil && id.Name == "set" {
			target, ok := call.Args[0].(*ast.CallExpr)
			if !ok {
				panic(unsupported("set() target must be a ghost function application"))
			}
			v := vc.evalScalar(st, call.Args[1])
			vc.ghostWrite(st, target, v.T)
			return
		}
		if id != nil && id.Name == "setall" {
			// setall(gh_f(a1..an-1, _), v): every point of the last dimension becomes v
			target, ok := call.Args[0].(*ast.CallExpr)
			if !ok {
				panic(unsupported("setall() target must be a ghost function application"))
			}
			v := vc.evalScalar(st, call.Args[1])
			fn, _ := vc.calleeFunc(target)
			name, sorts, res, hs := vc.ghostHeap(fn)
			h := vc.heapGet(st, name, hs)
			var idx []string
			for _, a := range target.Args[:len(target.Args)-1] {
				idx = append(idx, vc.evalScalar(st, a).T)
			}
			cst := fmt.Sprintf("((as const %s) %s)", ArrSort(sorts[len(sorts)-1], res), v.T)
			vc.heapSet(st, name, hs, nestedStore(h, idx, cst))
			return
		}
		if id != nil && id.Name == "havoc" {
			target := call.Args[0].(*ast.CallExpr)
			fn, _ := vc.calleeFunc(target)
			name, _, _, _ := vc.ghostHeap(fn)
			vc.havocHeap(st, name)
			return
		}
		panic(unsupported("ghost effect call"))
	case *ast.IfStmt:
		c := vc.evalBool(st, x.Cond)
		t := st.clone()
		t.pc = vc.newPC(and(st.pc, c))
		e := st.clone()
		e.pc = vc.newPC(and(st.pc, not(c)))
		for _, bs := range x.Body.List {
			vc.execEffect(t, bs)
		}
		if x.Else != nil {
			if eb, ok := x.Else.(*ast.BlockStmt); ok {
				for _, bs := range eb.List {
					vc.execEffect(e, bs)
				}
			} else {
				vc.execEffect(e, x.Else)
			}
		}
		m := vc.merge2(t, e)
		st.vars, st.heap = m.vars, m.heap
	default:
		panic(unsupported("ghost effect statement %T", s))
	}
}

// verifyLemma: a contract without code; parameters are universally quantified.
func (p *Program) verifyLemma(name string, si *SpecInfo) *FuncResult {
	if r, ok := verifyCache[name]; ok {
		return r
	}
	vc := newVC(p, nil)
	vc.pkg = si.Pkg.Types
	vc.info = si.Pkg.TypesInfo
	vc.lemmaName = name
	vc.lemmaSpec = si
	res := &FuncResult{Key: name, vc: vc}
	defer func() {
		if r := recover(); r != nil {
			if u, ok := r.(unsupportedErr); ok {
				res.Err = u
			} else {
				res.Err = fmt.Errorf("internal error in lemma %s: %v\n%s", name, r, debug.Stack())
			}
		}
		res.Obls = vc.obls
		res.Notes = vc.notes
		verifyCache[name] = res
	}()
	st := &State{vars: map[types.Object]Val{}, heap: map[string]string{}, pc: "true"}
	_, ps, _ := specParamObjs(si)
	var args []Val
	for _, o := range ps {
		v := vc.freshVal(o.Type(), "in."+o.Name())
		vc.registerInput(o.Name(), v)
		args = append(args, v)
	}
	vc.entry = st.clone()
	b := vc.bindSpec(si, nil, args, nil)
	for _, c := range si.Clauses {
		if c.Kind == "requires" {
			vc.assume(st, vc.evalClause(st, si, c.Expr, st))
		}
	}
	for _, c := range si.Clauses {
		if c.Kind == "ensures" {
			t := vc.evalClause(st, si, c.Expr, st)
			vc.oblige(st, "lemma", c.Name, c.Pos, t, "lemma conclusion "+c.Name)
		}
	}
	vc.unbind(b)
	return res
}

// ---- discharging ------------------------------------------------------------------------------------------

// obligations listed as open known findings: they are expected not to discharge, so little time is spent on them
var expectedToFail = map[string]bool{}

func dischargeAll(results []*FuncResult, timeout time.Duration, workdir string, par int, filter func(o *Obligation) bool) {
	type leaf struct {
		o    *Obligation // owning (reported) obligation
		src  *Obligation // obligation (or path part) whose VC/PC/hypotheses are used
		goal string
		tag  string
		res  SolveResult
	}
	var leaves []*leaf
	byObl := map[*Obligation][]*leaf{}
	for _, r := range results {
		for _, o := range r.Obls {
			if filter != nil && !filter(o) {
				continue
			}
			if o.Res.Status != "" {
				continue
			}
			srcs := []*Obligation{o}
			if len(o.Parts) > 0 {
				srcs = o.Parts
			}
			for pi, src := range srcs {
				if src.vc == nil {
					src.vc = r.vc
				}
				if src.Goal == "true" || src.PC == "false" {
					continue
				}
				for ci, g := range flattenGoal(src.Goal) {
					if g == "true" {
						continue
					}
					tag := o.Name
					if len(srcs) > 1 {
						tag += fmt.Sprintf(".p%d", pi+1)
					}
					tag += fmt.Sprintf(".c%d", ci+1)
					l := &leaf{o: o, src: src, goal: g, tag: tag}
					leaves = append(leaves, l)
					byObl[o] = append(byObl[o], l)
				}
			}
			if len(byObl[o]) == 0 {
				o.Res = SolveResult{Status: "unsat", Solver: "trivial"}
			}
		}
	}
	ch := make(chan *leaf)
	var wg sync.WaitGroup
	for i := 0; i < par; i++ {
		wg.Add(1)
		go func() {
			defer wg.Done()
			for l := range ch {
				sub := *l.src
				sub.Goal = l.goal
				to := timeout
				if expectedToFail[l.o.Name] && to > 8*time.Second {
					to = 8 * time.Second // listed known finding: it is expected not to discharge
				}
				r := solve(l.src.vc.query(&sub, true), to, workdir, l.tag, true)
				if r.Status != "unsat" && r.Status != "sat" && l.src.vc.oracle == nil && !expectedToFail[l.o.Name] {
					if cr, ok := caseSplit(l.src.vc, &sub, timeout, workdir, l.tag); ok {
						r = cr
					}
				}
				l.res = r
			}
		}()
	}
	for _, l := range leaves {
		ch <- l
	}
	close(ch)
	wg.Wait()
	// second chance, one at a time and with a longer limit, for queries that ran out of time while the
	// machine was busy (an undecided query under load must not turn into an alarm)
	retried := 0
	for _, l := range leaves {
		if l.res.Status != "timeout" || retried >= 4 || expectedToFail[l.o.Name] {
			continue // "unknown" means the solvers gave up early: more time does not help
		}
		retried++
		sub := *l.src
		sub.Goal = l.goal
		for _, mult := range []time.Duration{2, 6} {
			r := solve(l.src.vc.query(&sub, true), mult*timeout, workdir, l.tag+".retry", true)
			if r.Status == "unsat" || r.Status == "sat" {
				r.Solver += " (retry)"
				l.res = r
				break
			}
			if r.Status != "timeout" {
				break
			}
		}
	}
	for o, ls := range byObl {
		total := SolveResult{Status: "unsat", All: map[string]string{}}
		used := map[string]bool{}
		var worst float64
		for _, l := range ls {
			total.TimeS += l.res.TimeS
			if l.res.TimeS > worst {
				worst = l.res.TimeS
			}
			used[l.res.Solver] = true
			if l.res.Status != "unsat" && total.Status == "unsat" {
				total.Status = l.res.Status
				total.Solver = l.res.Solver
				total.Output = fmt.Sprintf("; failing part %s: %s\n", strings.TrimPrefix(l.tag, o.Name), l.goal) + l.res.Output
				total.All = l.res.All
			}
		}
		if total.Status == "unsat" {
			total.Solver = strings.Join(sortedKeys(used), "+")
			if len(ls) > 1 {
				total.All["parts"] = fmt.Sprintf("%d queries, slowest %.2fs", len(ls), worst)
			}
		}
		o.Res = total
	}
}

// knownFailing: obligations listed as open known findings (any property); loaded from known_findings.json.
var knownFailing = map[string]bool{}

// ---- lock state at function boundaries ---------------------------------------------------------------

type lockExpect struct{ policy, shardW, shardR bool }

func (p *Program) lockExpectation(fi *FuncInfo) lockExpect {
	var e lockExpect
	if fi == nil {
		return e
	}
	e.policy = p.policyDomainFunc(fi)
	if fi.Spec != nil {
		if fi.Spec.Flags["holds_policy"] {
			e.policy = true
		}
		e.shardW = fi.Spec.Flags["holds_shard"]
		e.shardR = fi.Spec.Flags["holds_shardR"]
	}
	return e
}

var lockIDs = []string{"Store.policyMu", "RBMutex", "Group.mu"}

// assumeEntryLocks: the locks a function is entered with are fixed by its contract flags
// (holds_policy / holds_shard / holds_shardR; policy-domain methods hold the policy lock implicitly);
// every other lock is not held. Call sites are checked against the same expectation.
func (vc *VC) assumeEntryLocks(st *State, fi *FuncInfo) {
	e := vc.prog.lockExpectation(fi)
	b := func(x bool) string {
		if x {
			return "true"
		}
		return "false"
	}
	vc.assume(st, eq(vc.heapGet(st, "anyW<Store.policyMu>", SBool), b(e.policy)))
	if e.shardR && !e.shardW {
		// read access suffices: the caller holds the shard lock in either mode
		vc.assume(st, or(vc.heapGet(st, "anyW<RBMutex>", SBool), vc.heapGet(st, "anyR<RBMutex>", SBool)))
	} else {
		vc.assume(st, eq(vc.heapGet(st, "anyW<RBMutex>", SBool), b(e.shardW)))
		vc.assume(st, eq(vc.heapGet(st, "anyR<RBMutex>", SBool), "false"))
	}
	vc.assume(st, eq(vc.heapGet(st, "anyW<Group.mu>", SBool), "false"))
	// the stripe's batch token is held on entry only by functions flagged holds_token (Buffer.Free)
	vc.assume(st, eq(vc.heapGet(st, "gh.token", SBool), b(fi != nil && fi.Spec != nil && fi.Spec.Flags["holds_token"])))
	srt := ArrSort(SRef, SBool)
	vc.curLabel = "lockstate"
	defer func() { vc.curLabel = "" }()
	if !e.policy {
		vc.assume(st, fmt.Sprintf("(forall ((m Ref)) (not (select %s m)))", vc.heapGet(st, "lockW<Store.policyMu>", srt)))
	}
	if !e.shardW && !e.shardR {
		vc.assume(st, fmt.Sprintf("(forall ((m Ref)) (not (select %s m)))", vc.heapGet(st, "lockW<RBMutex>", srt)))
	}
	if !e.shardR {
		vc.assume(st, fmt.Sprintf("(forall ((m Ref)) (not (select %s m)))", vc.heapGet(st, "lockR<RBMutex>", srt)))
	}
	vc.assume(st, fmt.Sprintf("(forall ((m Ref)) (not (select %s m)))", vc.heapGet(st, "lockW<Group.mu>", srt)))
	vc.assume(st, fmt.Sprintf("(forall ((m Ref)) (not (select %s m)))", vc.heapGet(st, "lockR<Group.mu>", srt)))
	vc.assume(st, fmt.Sprintf("(forall ((m Ref)) (not (select %s m)))", vc.heapGet(st, "lockR<Store.policyMu>", srt)))
}

// obligeExitLocks: every function returns with exactly the locks it was entered with.
func (vc *VC) obligeExitLocks(exit *State, fi *FuncInfo) {
	touched := false
	for _, id := range lockIDs {
		if vc.written["anyW<"+id+">"] || vc.written["anyR<"+id+">"] {
			touched = true
		}
	}
	if !touched {
		return
	}
	var cs []string
	for _, id := range lockIDs {
		for _, pre := range []string{"anyW<", "anyR<"} {
			n := pre + id + ">"
			if vc.written[n] {
				cs = append(cs, eq(vc.heapGet(exit, n, SBool), vc.heapGet(vc.entry, n, SBool)))
			}
		}
		for _, pre := range []string{"lockW<", "lockR<"} {
			n := pre + id + ">"
			if vc.written[n] {
				cs = append(cs, eq(vc.heapGet(exit, n, ArrSort(SRef, SBool)), vc.heapGet(vc.entry, n, ArrSort(SRef, SBool))))
			}
		}
	}
	vc.oblige(exit, "lock", "balanced", fi.Decl.End(), and(cs...), "every lock taken is released on every path (and none released that was not taken)")
}

func isLockHeap(n string) bool {
	return strings.HasPrefix(n, "lockW<") || strings.HasPrefix(n, "lockR<") || strings.HasPrefix(n, "anyW<") || strings.HasPrefix(n, "anyR<")
}

// callLockCheck: at a modular call the caller must provide the lock state the callee's VC assumed.
func (vc *VC) callLockCheck(st *State, callee *FuncInfo, recv Val, pos token.Pos) {
	if vc.specMode || vc.dry > 0 || callee == nil || callee.Decl == nil || callee.Decl.Body == nil {
		return
	}
	e := vc.prog.lockExpectation(callee)
	var acq map[string]bool
	if r, ok := verifyCache[callee.Key]; ok && r.vc != nil {
		acq = r.vc.acquired
	}
	fresh := "false"
	if r, ok := recv.(*Scalar); ok && r.S == SRef {
		fresh = vc.freshRef(r.T)
	}
	if e.policy {
		vc.oblige(st, "lock", "policy_call", pos, or(vc.anyHeld(st, "Store.policyMu", false), fresh), "call to "+callee.Key+" requires the policy lock")
	} else if acq["Store.policyMu"] {
		vc.oblige(st, "lock", "policy_call", pos, not(vc.anyHeld(st, "Store.policyMu", false)), "call to "+callee.Key+" (which takes the policy lock) while holding it")
	}
	if callee.Spec != nil && callee.Spec.Flags["holds_token"] {
		vc.oblige(st, "lock", "token_call", pos, vc.heapGet(st, "gh.token", SBool), "call to "+callee.Key+" requires the stripe's batch token")
	}
	if e.shardW {
		vc.oblige(st, "lock", "shard_call", pos, or(vc.anyHeld(st, "RBMutex", false), fresh), "call to "+callee.Key+" requires a shard write lock")
	} else if e.shardR {
		vc.oblige(st, "lock", "shard_call", pos, or(vc.anyHeld(st, "RBMutex", true), fresh), "call to "+callee.Key+" requires a shard lock")
	} else if acq["RBMutex"] {
		vc.oblige(st, "lock", "shard_call", pos, not(vc.anyHeld(st, "RBMutex", true)), "call to "+callee.Key+" (which takes a shard lock) while holding one")
	}
}

// flattenGoal splits a goal into conjuncts: (and a b) and (=> p (and a b)) are split recursively.
func flattenGoal(g string) []string {
	if full := flattenGoalFull(g); len(full) <= maxLeavesPerGoal {
		return full
	}
	for depth := 8; depth >= 1; depth-- {
		r := flattenDepth(g, depth)
		if len(r) <= maxLeavesPerGoal || depth == 1 {
			return r
		}
	}
	return []string{g}
}

var maxLeavesPerGoal = 400

func flattenDepth(g string, depth int) []string {
	if depth == 0 {
		return []string{g}
	}
	if strings.HasPrefix(g, "(and ") {
		var out []string
		for _, c := range splitConj(g) {
			out = append(out, flattenDepth(c, depth-1)...)
		}
		return out
	}
	if strings.HasPrefix(g, "(=> ") {
		parts := splitConj("(and " + g[4:len(g)-1] + ")")
		if len(parts) == 2 {
			sub := flattenDepth(parts[1], depth-1)
			if len(sub) > 1 {
				var out []string
				for _, c := range sub {
					out = append(out, "(=> "+parts[0]+" "+c+")")
				}
				return out
			}
		}
	}
	return []string{g}
}

func flattenGoalFull(g string) []string {
	if strings.HasPrefix(g, "(and ") {
		var out []string
		for _, c := range splitConj(g) {
			out = append(out, flattenGoalFull(c)...)
		}
		return out
	}
	if strings.HasPrefix(g, "(=> ") {
		parts := splitConj("(and " + g[4:len(g)-1] + ")")
		if len(parts) == 2 {
			sub := flattenGoalFull(parts[1])
			if len(sub) > 1 {
				var out []string
				for _, c := range sub {
					out = append(out, "(=> "+parts[0]+" "+c+")")
				}
				return out
			}
		}
	}
	return []string{g}
}

// solveSplit discharges an obligation conjunct by conjunct (each a separate, smaller query); the
// obligation is discharged iff every conjunct is.
func solveSplit(vc *VC, o *Obligation, timeout time.Duration, workdir string) SolveResult {
	parts := flattenGoal(o.Goal)
	if len(parts) <= 1 {
		r := solve(vc.query(o, true), timeout, workdir, o.Name, true)
		if r.Status != "unsat" && r.Status != "sat" {
			if cr, ok := caseSplit(vc, o, timeout, workdir, o.Name); ok {
				return cr
			}
		}
		return r
	}
	total := SolveResult{Status: "unsat", Solver: "", All: map[string]string{}}
	used := map[string]bool{}
	for i, g := range parts {
		if g == "true" {
			continue
		}
		sub := *o
		sub.Goal = g
		r := solve(vc.query(&sub, true), timeout, workdir, fmt.Sprintf("%s.c%d", o.Name, i+1), true)
		if r.Status != "unsat" && r.Status != "sat" {
			if cr, ok := caseSplit(vc, &sub, timeout, workdir, fmt.Sprintf("%s.c%d", o.Name, i+1)); ok {
				r = cr
			}
		}
		total.TimeS += r.TimeS
		used[r.Solver] = true
		total.All[fmt.Sprintf("conjunct%d", i+1)] = r.Status + " " + r.Solver
		if r.Status != "unsat" {
			r.All = total.All
			r.TimeS = total.TimeS
			r.Output = fmt.Sprintf("; conjunct %d of %d: %s\n", i+1, len(parts), g) + r.Output
			return r
		}
	}
	total.Solver = strings.Join(sortedKeys(used), "+")
	return total
}

// effectTargets: the ghost heaps assigned by the ghost effects of a contract.
func (vc *VC) effectTargets(si *SpecInfo) []string {
	set := map[string]bool{}
	saveInfo := vc.info
	vc.info = si.Pkg.TypesInfo
	defer func() { vc.info = saveInfo }()
	var walk func(s ast.Stmt)
	walk = func(s ast.Stmt) {
		switch x := s.(type) {
		case *ast.ExprStmt:
			if call, ok := x.X.(*ast.CallExpr); ok && len(call.Args) > 0 {
				if tgt, ok := call.Args[0].(*ast.CallExpr); ok {
					if fn, _ := vc.calleeFunc(tgt); fn != nil && hasPfx(fn.Name(), "gh_") {
						n, _, _, _ := vc.ghostHeap(fn)
						set[n] = true
					}
				}
			}
		case *ast.IfStmt:
			for _, b := range x.Body.List {
				walk(b)
			}
			if eb, ok := x.Else.(*ast.BlockStmt); ok {
				for _, b := range eb.List {
					walk(b)
				}
			} else if x.Else != nil {
				walk(x.Else)
			}
		}
	}
	for _, e := range si.Effects {
		walk(e)
	}
	return sortedKeys(set)
}

// exitEffects: ghost effects of the contract at function exit. A ghost heap the body has not touched is
// updated by executing the effects (they define the ghost change). A ghost heap the body has already
// updated through its callees is instead CHECKED against the effects (obligation `ghost.<heap>`): the
// effects then specify the net ghost change, and callers apply exactly them.
func (vc *VC) exitEffects(exit *State, fi *FuncInfo) {
	si := fi.Spec
	if len(si.Effects) == 0 {
		return
	}
	targets := vc.effectTargets(si)
	wasWritten := map[string]bool{}
	for _, g := range targets {
		wasWritten[g] = vc.written[g]
	}
	// what callers will see: the effects applied to the ghost state the function was entered with
	chk := exit.clone()
	for _, g := range targets {
		if e, ok := vc.entry.heap[g]; ok {
			chk.heap[g] = e
		} else {
			delete(chk.heap, g)
		}
	}
	vc.runEffects(chk, si, vc.entry)
	// what the function really produces: the effects applied after the body (the body may have changed the
	// same ghost state through its callees)
	vc.runEffects(exit, si, vc.entry)
	for _, g := range targets {
		srt, ok := vc.heapSort[g]
		if !ok || !wasWritten[g] {
			continue
		}
		vc.oblige(exit, "ghost", strings.TrimPrefix(g, "gh."), fi.Decl.End(), eq(vc.heapGet(exit, g, srt), vc.heapGet(chk, g, srt)),
			"the net ghost change of body and effects equals the ghost effects declared in the contract (which is what callers apply)")
	}
}

// caseSplit retries an undecided goal under c and under (not c) for recent branch conditions c of the
// function (sound: the two cases are exhaustive). Helps goals stated after control-flow joins.
func caseSplit(vc *VC, o *Obligation, timeout time.Duration, workdir, tag string) (SolveResult, bool) {
	var cands []string
	for i := len(vc.conds) - 1; i >= 0 && len(cands) < 6; i-- {
		if vc.conds[i].traceN <= o.TraceN {
			cands = append(cands, vc.conds[i].term)
		}
	}
	for k, c := range cands {
		r1 := solve(vc.queryWith(o, false, c), timeout, workdir, fmt.Sprintf("%s.split%d.t", tag, k), false)
		if r1.Status != "unsat" {
			continue
		}
		r2 := solve(vc.queryWith(o, false, not(c)), timeout, workdir, fmt.Sprintf("%s.split%d.f", tag, k), false)
		if r2.Status != "unsat" {
			continue
		}
		return SolveResult{Status: "unsat", Solver: r1.Solver + "|" + r2.Solver + " (case split)", TimeS: r1.TimeS + r2.TimeS,
			All: map[string]string{"split": c}}, true
	}
	return SolveResult{}, false
}

func boolKeysOf(m map[string][]string) map[string]bool {
	o := map[string]bool{}
	for k := range m {
		o[k] = true
	}
	return o
}
