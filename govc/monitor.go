package main

// Concurrency layer: monitors (lock-protected invariants), guarded-field access obligations,
// channel message invariants. Filled in by the property layer.

import (
	"go/ast"
	"go/token"
	"go/types"
)

type monitor interface {
	acquire(vc *VC, st *State, ref string, write bool)
	release(vc *VC, st *State, ref string, write bool, pos token.Pos)
}

func (vc *VC) guardCheck(st *State, p place, sub string, write bool)            {}
func (vc *VC) guardCheckMap(st *State, m string, mt *types.Map, write bool)      {}
func (vc *VC) chanMsgInv(st *State, ch ast.Expr, v Val, t types.Type)            {}
