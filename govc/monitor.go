package main

// Concurrency layer (DESIGN.md section 3): lock domains of shared fields, access obligations
// (`lock.guard`), monitor rule (havoc + invariant on acquire, invariant obligation on release),
// implicit "policy lock held" precondition of policy-domain code.

import (
	"os"
	"fmt"
	"go/ast"
	"go/token"
	"go/types"
	"strings"
)

type monitor interface {
	acquire(vc *VC, st *State, ref string, write bool)
	release(vc *VC, st *State, ref string, write bool, pos token.Pos)
}

// guard domains
const (
	gFree      = "free"      // not shared, or ordered by other means (stated in the evidence)
	gImmutable = "immutable" // written only while the object is fresh (before publication)
	gShard     = "shard"     // shard RBMutex: R for reads, W for writes; or fresh; Entry.value also when owned
	gPolicy    = "policy"    // Store.policyMu for reads and writes; or fresh
	gAtomic    = "atomic"    // only through sync/atomic operations (or fresh)
	gAtomicSW  = "atomic-sw" // atomic; stores additionally need the shard write lock (or fresh)
	gGroup     = "group"     // Group.mu
	gToken     = "token"     // owned by the goroutine that took the stripe's batch token (CAS of Buffer.returned to nil)
)

// atomic pointer fields that act as ownership tokens: nil = taken
var tokenFields = map[string]bool{"Buffer.returned": true}

// guardTable: "Owner.field" -> domain. Taken from the comments in entry.go / store.go (DESIGN.md C19).
var guardTable = map[string]string{
	"Entry.key": gImmutable, "Entry.value": gShard, "Entry.meta": gPolicy, "Entry.weight": gAtomicSW,
	"Entry.policyWeight": gPolicy, "Entry.expire": gAtomicSW, "Entry.flag": gPolicy,
	"Shard.hashmap": gShard, "Shard.dookeeper": gImmutable, "Shard.group": gImmutable, "Shard.vgroup": gImmutable,
	"Shard.counter": gShard, "Shard.mu": gImmutable, "Shard.closed": gShard,
	"bf.Bloomfilter.Filter": gShard, "bf.Bloomfilter.FalsePositiveRate": gShard, "bf.Bloomfilter.K": gShard,
	"bf.Bloomfilter.M": gShard, "bf.Bloomfilter.Capacity": gShard,
	"List.root": gPolicy, "List.len": gPolicy, "List.count": gPolicy, "List.capacity": gPolicy, "List.listType": gImmutable,
	"Slru.probation": gImmutable, "Slru.protected": gImmutable, "Slru.maxsize": gImmutable,
	"TinyLfu.window": gImmutable, "TinyLfu.slru": gImmutable, "TinyLfu.sketch": gImmutable, "TinyLfu.hasher": gImmutable,
	"TinyLfu.capacity": gImmutable, "TinyLfu.weightedSize": gPolicy, "TinyLfu.misses": gImmutable, "TinyLfu.hits": gImmutable,
	"TinyLfu.hitsInSample": gPolicy, "TinyLfu.missesInSample": gPolicy, "TinyLfu.hr": gPolicy, "TinyLfu.step": gPolicy,
	"TinyLfu.amount": gPolicy, "TinyLfu.removeCallback": gImmutable,
	"CountMinSketch.Table": gPolicy, "CountMinSketch.Additions": gPolicy, "CountMinSketch.SampleSize": gPolicy,
	"CountMinSketch.BlockMask": gPolicy,
	"TimerWheel.clock": gImmutable, "TimerWheel.buckets": gImmutable, "TimerWheel.spans": gImmutable,
	"TimerWheel.shift": gImmutable, "TimerWheel.wheel": gImmutable, "TimerWheel.nanos": gPolicy,
	"Store.entryPool": gImmutable, "Store.writeChan": gImmutable, "Store.writeBuffer": gFree, "Store.hasher": gImmutable,
	"Store.removalListener": gImmutable, "Store.removalCallback": gImmutable, "Store.kvBuilder": gImmutable,
	"Store.policy": gImmutable, "Store.timerwheel": gImmutable, "Store.stripedBuffer": gImmutable, "Store.mask": gImmutable,
	"Store.cost": gImmutable, "Store.shards": gImmutable, "Store.cap": gImmutable, "Store.shardCount": gImmutable,
	"Store.policyMu": gFree, "Store.doorkeeper": gImmutable, "Store.closed": gPolicy, "Store.secondaryCache": gImmutable,
	"Store.secondaryCacheBuf": gImmutable, "Store.probability": gImmutable, "Store.rg": gImmutable, "Store.ctx": gImmutable,
	"Store.cancel": gImmutable, "Store.maintenanceTicker": gPolicy, "Store.waitChan": gImmutable,
	"LoadingStore.loader": gImmutable, "LoadingStore.Store": gImmutable,
	"clock.Clock.now": gAtomic, "clock.Clock.Start": gFree,
	"PolicyBuffers.Returned": gToken,
	"Buffer.head": gAtomic, "Buffer.tail": gAtomic, "Buffer.returned": gAtomic, "Buffer.policyBuffers": gImmutable,
	"Buffer.buffer": gAtomic,
	"UnsignedCounter.stripes": gImmutable, "UnsignedCounter.mask": gImmutable, "ptoken.idx": gFree, "ptoken.pad": gFree,
	"Group.m": gGroup, "Group.mu": gFree, "Group.callPool": gFree,
	"call.val": gFree, "call.err": gFree, "call.wg": gFree, "call.dups": gAtomic,
}

// types whose every field must carry an annotation (completeness obligation of C19)
var guardedOwners = map[string]bool{"Entry": true, "Shard": true, "List": true, "Slru": true, "TinyLfu": true,
	"CountMinSketch": true, "TimerWheel": true, "Store": true, "LoadingStore": true, "Buffer": true, "Group": true, "call": true,
	"UnsignedCounter": true, "clock.Clock": true, "bf.Bloomfilter": true, "PolicyBuffers": true}

func guardOf(leaf string) (rule string, known bool, owner string) {
	// leaf: Owner.field[.sub...][#arr|#len]
	l := leaf
	if i := strings.Index(l, "#"); i >= 0 {
		l = l[:i]
	}
	parts := strings.Split(l, ".")
	// owner may be "pkg.Type"
	for n := 2; n <= 3 && n <= len(parts); n++ {
		k := strings.Join(parts[:n], ".")
		if r, ok := guardTable[k]; ok {
			return r, true, strings.Join(parts[:n-1], ".")
		}
	}
	own := parts[0]
	if len(parts) > 2 && guardedOwners[parts[0]+"."+parts[1]] {
		own = parts[0] + "." + parts[1]
	}
	return "", false, own
}

func (vc *VC) anyHeld(st *State, id string, read bool) string {
	w := vc.heapGet(st, "anyW<"+id+">", SBool)
	if !read {
		return w
	}
	return or(w, vc.heapGet(st, "anyR<"+id+">", SBool))
}

// rootRef strips interior-object address functions: (addr.List.root l) -> l
func rootRef(ref string) string {
	for strings.HasPrefix(ref, "(addr.") || strings.HasPrefix(ref, "(|addr.") {
		i := strings.Index(ref, " ")
		if i < 0 {
			break
		}
		ref = strings.TrimSuffix(ref[i+1:], ")")
	}
	return ref
}

// freshRef: the object did not exist when the function under verification was entered.
func (vc *VC) freshRef(ref string) string {
	if vc.entry == nil {
		return "false"
	}
	al := vc.heapGet(vc.entry, "alloc", ArrSort(SRef, SBool))
	fr := not(sel(al, rootRef(ref)))
	if vc.written["gh.pooled"] && vc.curState != nil {
		// objects obtained from the entry pool in this function count as this goroutine's own
		fr = or(fr, sel(vc.heapGet(vc.curState, "gh.pooled", ArrSort(SRef, SBool)), rootRef(ref)))
	}
	return fr
}

func (vc *VC) guardOblige(st *State, goal, what string) {
	if vc.dry > 0 {
		return
	}
	key := st.pc + "|" + goal
	if vc.guardSeen == nil {
		vc.guardSeen = map[string]bool{}
	}
	if vc.guardSeen[key] {
		return
	}
	vc.guardSeen[key] = true
	vc.oblige(st, "lock", "guard", vc.curPos, goal, what)
}

func (vc *VC) guardCheck(st *State, p place, sub string, write bool) {
	if p.kind != pHeap {
		return
	}
	vc.curState = st
	leaf := p.owner + p.path + sub
	rule, known, owner := guardOf(leaf)
	if !known {
		if guardedOwners[owner] {
			panic(unsupported("field %s of a shared structure has no lock-domain annotation (C19 completeness)", leaf))
		}
		return
	}
	mode := "read"
	if write {
		mode = "write"
	}
	fresh := vc.freshRef(p.ref)
	var goal string
	switch rule {
	case gFree:
		return
	case gImmutable:
		if !write {
			return
		}
		goal = fresh
	case gShard:
		goal = or(fresh, vc.anyHeld(st, "RBMutex", !write))
		if leaf == "Entry.value" && !write {
			goal = or(goal, sel(vc.heapGet(st, "gh.owned", ArrSort(SRef, SBool)), p.ref))
		}
	case gPolicy:
		goal = or(fresh, vc.anyHeld(st, "Store.policyMu", false))
	case gAtomic, gAtomicSW:
		if vc.inAtomic == 0 {
			goal = fresh
		} else if rule == gAtomicSW && write {
			goal = or(fresh, vc.anyHeld(st, "RBMutex", false))
		} else {
			return
		}
	case gGroup:
		goal = or(fresh, vc.anyHeld(st, "Group.mu", false))
	case gToken:
		goal = or(fresh, vc.heapGet(st, "gh.token", SBool))
	}
	vc.guardOblige(st, goal, fmt.Sprintf("%s of %s requires its lock domain (%s)", mode, leaf, rule))
}

func (vc *VC) guardCheckMap(st *State, m string, mt *types.Map, write bool) {
	vc.curState = st
	k := typeKey(mt)
	var id string
	switch {
	case strings.HasSuffix(k, "]*Entry"):
		id = "RBMutex"
	case strings.HasSuffix(k, "]*call"):
		id = "Group.mu"
		write = true
	default:
		return
	}
	mode := "read"
	if write {
		mode = "write"
	}
	goal := or(vc.freshRef(m), vc.anyHeld(st, id, !write))
	vc.guardOblige(st, goal, fmt.Sprintf("%s of map %s requires %s", mode, k, id))
}

// chanMsgInv: message invariant of a channel field. `chanrecv_<field>(msg)` on the owner type lists, as ensures
// clauses, what a receiver may assume about a message; each of them must be, with the same name and the same
// source text, a requires clause of `chansend_<field>` (checked here), so every sender is obliged to establish
// it. The clauses must speak about the message's own immutable content only (reviewed, not checked).
func (vc *VC) chanMsgInv(st *State, ch ast.Expr, v Val, t types.Type) {
	se, ok := unparen(ch).(*ast.SelectorExpr)
	if !ok {
		return
	}
	selInfo, ok := vc.info.Selections[se]
	if !ok || selInfo.Kind() != types.FieldVal {
		return
	}
	own := ownerName(selInfo.Recv())
	ri, ok := vc.prog.fspec[own+".chanrecv_"+se.Sel.Name]
	if !ok {
		return
	}
	si, ok := vc.prog.fspec[own+".chansend_"+se.Sel.Name]
	if !ok {
		panic(unsupported("chanrecv_%s without chansend_%s", se.Sel.Name, se.Sel.Name))
	}
	src := func(x *SpecInfo, c *Clause) string {
		f := vc.prog.fset.Position(c.Expr.Pos())
		e := vc.prog.fset.Position(c.Expr.End())
		b, err := os.ReadFile(f.Filename)
		if err != nil {
			return "?" + c.Name
		}
		return string(b[f.Offset:e.Offset])
	}
	recv := vc.eval(st, se.X)
	b := vc.bindSpec(ri, recv, []Val{v}, nil)
	saveOld := vc.oldState
	for i := range ri.Clauses {
		c := &ri.Clauses[i]
		if c.Kind != "ensures" {
			continue
		}
		matched := false
		for j := range si.Clauses {
			d := &si.Clauses[j]
			if d.Kind == "requires" && d.Name == c.Name && src(si, d) == src(ri, c) {
				matched = true
			}
		}
		if !matched {
			panic(unsupported("chanrecv_%s clause %s is not, verbatim, a requires clause of chansend_%s", se.Sel.Name, c.Name, se.Sel.Name))
		}
		vc.assume(st, vc.evalClause(st, ri, c.Expr, st))
	}
	vc.oldState = saveOld
	vc.unbind(b)
}

// ---- monitor rule -------------------------------------------------------------------------------

// heaps protected by each lock kind (havoc'd when the lock is acquired: other goroutines may have
// changed them since this goroutine last held the lock)
var shardHeaps = []string{"Shard.hashmap", "Shard.closed", "Shard.counter", "Entry.value", "Entry.weight", "Entry.expire",
	"mapdom<map[K]*Entry>", "mapval<map[K]*Entry>", "maplen<map[K]*Entry>",
	"bf.Bloomfilter.Filter#arr", "bf.Bloomfilter.Filter#len", "bf.Bloomfilter.K", "bf.Bloomfilter.M", "bf.Bloomfilter.Capacity"}

var policyHeaps = []string{"Entry.meta.prev", "Entry.meta.next", "Entry.meta.wheelPrev", "Entry.meta.wheelNext",
	"Entry.flag.Flags", "Entry.policyWeight", "List.len", "List.count", "List.capacity",
	"TinyLfu.weightedSize", "TinyLfu.hitsInSample", "TinyLfu.missesInSample", "TinyLfu.hr", "TinyLfu.step", "TinyLfu.amount",
	"CountMinSketch.Table#arr", "CountMinSketch.Table#len", "CountMinSketch.Additions", "CountMinSketch.SampleSize",
	"CountMinSketch.BlockMask", "TimerWheel.nanos", "Store.closed", "Store.writeBuffer#arr", "Store.writeBuffer#len",
	"Store.maintenanceTicker"}

var groupHeaps = []string{"Group.m", "mapdom<map[K]*call>", "mapval<map[K]*call>", "maplen<map[K]*call>"}

// flags that are only ever set, never cleared (closed flags): interference preserves "already set"
var monotoneFlags = map[string]bool{"Shard.closed": true, "Store.closed": true}

// ghost heaps that belong to a lock domain are declared in contract files by name prefix:
// gh_sh_* (shard), gh_po_* (policy), gh_gr_* (group).
func (vc *VC) ghostHeapsOf(prefix string) []string {
	var out []string
	for fn := range vc.prog.ghost {
		if hasPfx(fn.Name(), "gh_"+prefix+"_") {
			n, _, _, _ := vc.ghostHeap(fn)
			out = append(out, n)
		}
	}
	return out
}

// lockAcquired / lockReleased are called by lockOp after the per-instance bookkeeping.
// owner: the expression of the object the lock belongs to (shard for shard.mu, store for s.policyMu,
// group for g.mu), "" when it cannot be determined syntactically.
func (vc *VC) lockAcquired(st *State, id string, write bool, ownerRef string, pos token.Pos) {
	var heaps []string
	var inv string
	switch id {
	case "RBMutex":
		heaps = append(append([]string{}, shardHeaps...), vc.ghostHeapsOf("sh")...)
		inv = "moninv_Shard"
	case "Store.policyMu":
		heaps = append(append([]string{}, policyHeaps...), vc.ghostHeapsOf("po")...)
		inv = "moninv_Store"
	case "Group.mu":
		heaps = append(append([]string{}, groupHeaps...), vc.ghostHeapsOf("gr")...)
		inv = "moninv_Group"
	}
	// Re-acquisition: state protected by the lock may have been changed by other goroutines. The very
	// first acquisition in a function needs no havoc (the pre-state is arbitrary already), but havoc is
	// harmless there; it is skipped only to keep old() of entry values meaningful.
	if vc.acquired == nil {
		vc.acquired = map[string]bool{}
	}
	if vc.acquired[id] {
		for _, h := range heaps {
			var before string
			if monotoneFlags[h] {
				if srt, ok := vc.heapSort[h]; ok {
					before = vc.heapGet(st, h, srt)
				}
			}
			vc.havocHeap(st, h)
			delete(vc.written, h)
			if before != "" {
				// rely: other goroutines only ever set this flag (every store to it is checked to store true)
				after := vc.heapGet(st, h, vc.heapSort[h])
				vc.assume(st, fmt.Sprintf("(forall ((x?mo Ref)) (=> (select %s x?mo) (select %s x?mo)))", before, after))
			}
		}
	}
	vc.acquired[id] = true
	vc.monitorInv(st, inv, ownerRef, false, pos)
}

func (vc *VC) lockReleased(st *State, id string, write bool, ownerRef string, pos token.Pos) {
	if !write {
		return
	}
	inv := map[string]string{"RBMutex": "moninv_Shard", "Store.policyMu": "moninv_Store", "Group.mu": "moninv_Group"}[id]
	vc.monitorInv(st, inv, ownerRef, true, pos)
}

func (vc *VC) monitorInv(st *State, name string, ownerRef string, check bool, pos token.Pos) {
	if name == "" || ownerRef == "" {
		return
	}
	var fi *FuncInfo
	for _, f := range vc.prog.pure {
		if f.Obj.Name() == name {
			fi = f
		}
	}
	if fi == nil {
		return
	}
	if vc.fn != nil && vc.fn.Spec != nil && vc.fn.Spec.Flags["no_monitor"] {
		return
	}
	saveMode, saveOld := vc.specMode, vc.oldState
	vc.specMode = true
	if vc.oldState == nil {
		vc.oldState = st
	}
	t := vc.evalPure(st, fi, []Val{sc(ownerRef, SRef)}, nil).(*Scalar).T
	vc.specMode, vc.oldState = saveMode, saveOld
	if check {
		if vc.dry == 0 {
			for i, c := range splitConj(t) {
				vc.oblige(st, "monitor.keep", fmt.Sprintf("%s.%d", strings.TrimPrefix(name, "moninv_"), i+1), pos, c, "monitor invariant "+name+" must hold when the write lock is released")
			}
		}
	} else {
		save := vc.curLabel
		vc.curLabel = "moninv." + name
		vc.assume(st, t)
		vc.curLabel = save
	}
}

// splitConj splits a top-level (and a b c) term.
func splitConj(t string) []string {
	if !strings.HasPrefix(t, "(and ") {
		return []string{t}
	}
	body := t[5 : len(t)-1]
	var out []string
	d, start := 0, 0
	inBar := false
	for i := 0; i < len(body); i++ {
		switch body[i] {
		case '|':
			inBar = !inBar
		case '(':
			if !inBar {
				d++
			}
		case ')':
			if !inBar {
				d--
			}
		case ' ':
			if d == 0 && !inBar {
				if i > start {
					out = append(out, body[start:i])
				}
				start = i + 1
			}
		}
	}
	if start < len(body) {
		out = append(out, body[start:])
	}
	return out
}

// ---- policy-domain code ---------------------------------------------------------------------------

var policyFiles = map[string]bool{"list.go": true, "slru.go": true, "tlfu.go": true, "timerwheel.go": true, "sketch.go": true}

// policyDomainFunc: methods of the policy data structures run with the policy lock held; this is an
// implicit precondition of their VCs and an obligation at every call from outside the domain.
func (p *Program) policyDomainFunc(fi *FuncInfo) bool {
	if fi == nil || fi.Decl == nil || fi.Decl.Recv == nil || fi.IsSpecFile {
		return false
	}
	if fi.Spec != nil && fi.Spec.Flags["no_policy_lock"] {
		return false
	}
	f := p.fset.Position(fi.Decl.Pos()).Filename
	if i := strings.LastIndex(f, "/"); i >= 0 {
		f = f[i+1:]
	}
	if !policyFiles[f] || !strings.HasSuffix(fi.Pkg.PkgPath, "/internal") {
		return false
	}
	return !strings.HasPrefix(fi.Decl.Name.Name, "New")
}

// ownerOfLockExpr: for x.mu / x.policyMu returns the value of x.
func (vc *VC) ownerOfLockExpr(st *State, e ast.Expr) string {
	se, ok := unparen(e).(*ast.SelectorExpr)
	if !ok {
		return ""
	}
	t := vc.info.TypeOf(se.X)
	if t == nil {
		return ""
	}
	if _, isPtr := t.Underlying().(*types.Pointer); !isPtr {
		return ""
	}
	save := vc.specMode
	vc.specMode = true // no nil/lock obligations for re-evaluating the owner expression
	v := vc.eval(st, se.X)
	vc.specMode = save
	if s, ok := v.(*Scalar); ok && s.S == SRef {
		return s.T
	}
	return ""
}
