package main

// SMT-LIB term construction helpers and the solver portfolio runner.

import (
	"bytes"
	"regexp"
	"context"
	"fmt"
	"os"
	"os/exec"
	"path/filepath"
	"strings"
	"sync"
	"time"
)

type Sort string

const (
	SBool   Sort = "Bool"
	SRef    Sort = "Ref"
	SReal   Sort = "Real"
	SInt    Sort = "Int"
	SString Sort = "GoString"
	SF32    Sort = "(_ FloatingPoint 8 24)"
	SF64    Sort = "(_ FloatingPoint 11 53)"
)

func BV(w int) Sort { return Sort(fmt.Sprintf("(_ BitVec %d)", w)) }

func (s Sort) IsBV() bool { return strings.HasPrefix(string(s), "(_ BitVec ") }
func (s Sort) Width() int {
	var w int
	fmt.Sscanf(string(s), "(_ BitVec %d)", &w)
	return w
}
func ArrSort(idx, elem Sort) Sort { return Sort(fmt.Sprintf("(Array %s %s)", idx, elem)) }

func bvLit(v uint64, w int) string {
	if w <= 64 {
		if w < 64 {
			v &= (uint64(1) << uint(w)) - 1
		}
		if w%4 == 0 {
			return fmt.Sprintf("#x%0*x", w/4, v)
		}
		return fmt.Sprintf("(_ bv%d %d)", v, w)
	}
	return fmt.Sprintf("(_ bv%d %d)", v, w)
}

func sx(op string, args ...string) string {
	return "(" + op + " " + strings.Join(args, " ") + ")"
}

func and(args ...string) string {
	var out []string
	for _, a := range args {
		if a == "true" || a == "" {
			continue
		}
		if a == "false" {
			return "false"
		}
		out = append(out, a)
	}
	switch len(out) {
	case 0:
		return "true"
	case 1:
		return out[0]
	}
	return sx("and", out...)
}

func or(args ...string) string {
	var out []string
	for _, a := range args {
		if a == "false" || a == "" {
			continue
		}
		if a == "true" {
			return "true"
		}
		out = append(out, a)
	}
	switch len(out) {
	case 0:
		return "false"
	case 1:
		return out[0]
	}
	return sx("or", out...)
}

func not(a string) string {
	switch a {
	case "true":
		return "false"
	case "false":
		return "true"
	}
	if strings.HasPrefix(a, "(not ") && balanced(a[5:len(a)-1]) {
		return a[5 : len(a)-1]
	}
	return sx("not", a)
}

func balanced(s string) bool {
	d := 0
	for i, c := range s {
		switch c {
		case '(':
			d++
		case ')':
			d--
			if d < 0 {
				return false
			}
			if d == 0 && i != len(s)-1 {
				return false
			}
		case ' ':
			if d == 0 {
				return false
			}
		}
	}
	return d == 0
}

func implies(a, b string) string {
	if a == "true" {
		return b
	}
	if b == "true" {
		return "true"
	}
	return sx("=>", a, b)
}

func ite(c, a, b string) string {
	if c == "true" {
		return a
	}
	if c == "false" {
		return b
	}
	if a == b {
		return a
	}
	return sx("ite", c, a, b)
}

func eq(a, b string) string {
	if a == b {
		return "true"
	}
	if strings.HasPrefix(a, "#x") && strings.HasPrefix(b, "#x") && len(a) == len(b) {
		return "false" // distinct literals of the same width
	}
	return sx("=", a, b)
}

func sel(arr, idx string) string        { return sx("select", arr, idx) }
func store(arr, idx, val string) string { return sx("store", arr, idx, val) }

func quoteName(n string) string {
	ok := true
	for _, c := range n {
		if !(c >= 'a' && c <= 'z' || c >= 'A' && c <= 'Z' || c >= '0' && c <= '9' || c == '_' || c == '.' || c == '!' || c == '$') {
			ok = false
			break
		}
	}
	if ok && len(n) > 0 && !(n[0] >= '0' && n[0] <= '9') {
		return n
	}
	return "|" + n + "|"
}

// ---------------------------------------------------------------------------
// Solver portfolio

type Solver struct {
	Name  string
	Args  []string // command; the query file is appended
	Delay float64  // seconds to wait before starting (second-line configurations start only if the first line has not answered)
}

var solvers = []Solver{
	// first line
	{"cvc5-1.0.3", []string{"cvc5", "--lang=smt2", "--produce-models"}, 0},
	{"z3-new-5.1.0-ematch", []string{"z3-new", "-smt2", "smt.mbqi=false", "smt.auto_config=false"}, 0},
	// summary variants: callee frame clauses (ensures named frame_*) are dropped, so that the callee's
	// summary clauses (e.g. "every other list keeps its invariant") are what the proof uses
	{"z3-new-5.1.0-ematch-noframes", []string{"z3-new", "-smt2", "smt.mbqi=false", "smt.auto_config=false"}, 1.5},
	{"cvc5-1.0.3-noframes", []string{"cvc5", "--lang=smt2", "--produce-models"}, 1.5},
	// hypothesis-pruned variants: every quantified assumption is dropped (sound: fewer hypotheses); they
	// decide arithmetic / bit-vector conjuncts quickly when the quantified invariants are irrelevant
	{"z3-new-5.1.0-noquant", []string{"z3-new", "-smt2"}, 0.5},
	// quantifier-free core: additionally drops assumptions about folded (opaque) predicates; decides sums of
	// list sizes after several updates, where those atoms only add case splits
	// (NOTE: z3's smt.bv.solver=2 decided these instantly but answered unsat on the satisfiable
	// x&(x-1)=0, so it is NOT used)
	{"z3-new-5.1.0-qfcore", []string{"z3-new", "-smt2"}, 1},
	// relevance-pruned variants: quantified assumptions that mention none of the (rarer) heap fields of
	// the goal are dropped (sound: fewer hypotheses)
	{"cvc5-1.0.3-relevant", []string{"cvc5", "--lang=smt2", "--produce-models"}, 2.5},
	{"z3-new-5.1.0-ematch-relevant", []string{"z3-new", "-smt2", "smt.mbqi=false", "smt.auto_config=false"}, 2.5},
	// second line: start only if the first line has not answered
	{"z3-new-5.1.0", []string{"z3-new", "-smt2", "smt.mbqi=true"}, 4},
	{"z3-4.8.12-ematch", []string{"z3", "-smt2", "smt.mbqi=false", "smt.auto_config=false"}, 6},
	{"z3-4.8.12", []string{"z3", "-smt2", "smt.mbqi=true"}, 8},
	{"cvc5-1.0.3-noquant", []string{"cvc5", "--lang=smt2", "--produce-models"}, 8},
}

// stripQuantified removes every assertion that contains a quantifier, except the negated goal (last assert).
func stripQuantified(q string) string {
	lines := strings.Split(q, "\n")
	lastAssert := -1
	for i, l := range lines {
		if strings.HasPrefix(l, "(assert ") {
			lastAssert = i
		}
	}
	var out []string
	for i, l := range lines {
		if i != lastAssert && strings.HasPrefix(l, "(assert ") && (strings.Contains(l, "(forall ") || strings.Contains(l, "(exists ")) {
			continue
		}
		out = append(out, l)
	}
	return strings.Join(out, "\n")
}

type SolveResult struct {
	Status string // unsat | sat | unknown | timeout | error
	Solver string
	TimeS  float64
	Output string // full output of the deciding solver (model when sat)
	All    map[string]string
}

// solve races the solvers on query (SMT-LIB text without check-sat/get-model footer handled by caller).
func solve(query string, timeout time.Duration, workdir string, tag string, wantModel bool) SolveResult {
	os.MkdirAll(workdir, 0o755)
	base := filepath.Join(workdir, sanitizeFile(tag))
	type one struct {
		name, status, out string
		t             float64
	}
	ctx, cancel := context.WithCancel(context.Background())
	defer cancel()
	ch := make(chan one, len(solvers))
	var wg sync.WaitGroup
	for _, s := range solvers {
		s := s
		q := query
		if strings.HasSuffix(s.Name, "-noquant") {
			q = stripQuantified(query)
			if q == query {
				continue // nothing to prune: identical to the base configuration
			}
		}
		if strings.HasSuffix(s.Name, "-qfcore") {
			q = stripOpaque(stripQuantified(query))
			if q == query {
				continue
			}
		}
		if strings.HasSuffix(s.Name, "-relevant") {
			q = stripIrrelevant(query)
			if q == query {
				continue
			}
		}
		if strings.HasSuffix(s.Name, "-noframes") {
			q = stripFrames(query)
			if q == query {
				continue
			}
		}
		f := base + "." + sanitizeFile(s.Name) + ".smt2"
		if err := os.WriteFile(f, []byte(q), 0o644); err != nil {
			return SolveResult{Status: "error", Output: err.Error()}
		}
		wg.Add(1)
		go func() {
			defer wg.Done()
			if s.Delay > 0 {
				select {
				case <-ctx.Done():
					return
				case <-time.After(time.Duration(s.Delay * float64(time.Second))):
				}
			}
			cctx, ccancel := context.WithTimeout(ctx, timeout)
			defer ccancel()
			args := append(append([]string{}, s.Args[1:]...), f)
			if strings.HasPrefix(s.Name, "z3") {
				args = append([]string{fmt.Sprintf("-T:%d", int(timeout.Seconds())+1)}, args...)
			} else {
				args = append([]string{fmt.Sprintf("--tlimit=%d", int(timeout.Milliseconds()))}, args...)
			}
			cmd := exec.CommandContext(cctx, s.Args[0], args...)
			var out bytes.Buffer
			cmd.Stdout = &out
			cmd.Stderr = &out
			t0 := time.Now()
			cmd.Run()
			dt := time.Since(t0).Seconds()
			o := out.String()
			first := strings.TrimSpace(strings.SplitN(o, "\n", 2)[0])
			st := "unknown"
			switch {
			case first == "unsat":
				st = "unsat"
			case first == "sat":
				st = "sat"
			case first == "unknown":
				st = "unknown"
			case cctx.Err() != nil || strings.Contains(o, "timeout") || strings.Contains(o, "interrupted"):
				st = "timeout"
			case strings.Contains(o, "error") || strings.Contains(o, "Error"):
				st = "error"
			}
			if (strings.HasSuffix(s.Name, "-noquant") || strings.HasSuffix(s.Name, "-noframes") || strings.HasSuffix(s.Name, "-relevant") || strings.HasSuffix(s.Name, "-qfcore")) && st == "sat" {
				st = "unknown" // a model of the pruned hypothesis set says nothing about the full one
			}
			ch <- one{s.Name, st, o, dt}
		}()
	}
	go func() { wg.Wait(); close(ch) }()
	res := SolveResult{Status: "timeout", All: map[string]string{}}
	var fallback *one
	for r := range ch {
		r := r
		res.All[r.name] = fmt.Sprintf("%s (%.2fs)", r.status, r.t)
		if r.status == "unsat" || r.status == "sat" {
			if res.Status != "unsat" && res.Status != "sat" {
				res.Status, res.Solver, res.TimeS, res.Output = r.status, r.name, r.t, r.out
				cancel()
			} else if res.Status != r.status {
				res.All["CONTRADICTION"] = r.name + "=" + r.status
			}
		} else if fallback == nil || (fallback.status == "error" && r.status != "error") {
			fallback = &r
		}
	}
	if res.Status != "unsat" && res.Status != "sat" && fallback != nil {
		res.Status, res.Solver, res.TimeS, res.Output = fallback.status, fallback.name, fallback.t, fallback.out
	}
	if statsFile != nil {
		statsMu.Lock()
		fmt.Fprintf(statsFile, "%s\t%s\t%.2f\t%s\n", res.Status, res.Solver, res.TimeS, tag)
		statsMu.Unlock()
	}
	if !keepQueries && res.Status == "unsat" {
		for _, s := range solvers {
			os.Remove(base + "." + sanitizeFile(s.Name) + ".smt2")
		}
	}
	return res
}

var keepQueries = false
var statsFile *os.File
var statsMu sync.Mutex

func sanitizeFile(s string) string {
	var b strings.Builder
	for _, c := range s {
		if c >= 'a' && c <= 'z' || c >= 'A' && c <= 'Z' || c >= '0' && c <= '9' || c == '_' || c == '.' || c == '-' {
			b.WriteRune(c)
		} else {
			b.WriteRune('_')
		}
	}
	r := b.String()
	if len(r) > 150 {
		r = r[:150]
	}
	return r
}

// stripFrames removes assumptions that the query generator tagged as callee frame clauses.
func stripFrames(q string) string {
	lines := strings.Split(q, "\n")
	var out []string
	skip := false
	for _, l := range lines {
		if strings.HasPrefix(l, "; [frame]") {
			skip = true
			continue
		}
		if skip {
			skip = false
			continue
		}
		out = append(out, l)
	}
	return strings.Join(out, "\n")
}

var heapFamRe = regexp.MustCompile(`H\.([A-Za-z0-9_.<>\[\]*#]+)!\d+`)

// stripIrrelevant drops quantified assumptions that share no heap field ("family") with the goal, where
// fields occurring in most assumptions (pointer selectors such as TinyLfu.window) do not count.
func stripIrrelevant(q string) string {
	lines := strings.Split(q, "\n")
	lastAssert := -1
	nAssert := 0
	freq := map[string]int{}
	for i, l := range lines {
		if strings.HasPrefix(l, "(assert ") {
			lastAssert = i
			nAssert++
			seen := map[string]bool{}
			for _, m := range heapFamRe.FindAllStringSubmatch(l, -1) {
				if !seen[m[1]] {
					seen[m[1]] = true
					freq[m[1]]++
				}
			}
		}
	}
	if lastAssert < 0 {
		return q
	}
	goalFam := map[string]bool{}
	for _, m := range heapFamRe.FindAllStringSubmatch(lines[lastAssert], -1) {
		if freq[m[1]]*3 <= nAssert*2 { // not ubiquitous
			goalFam[m[1]] = true
		}
	}
	if len(goalFam) == 0 {
		return q
	}
	var out []string
	for i, l := range lines {
		if i != lastAssert && strings.HasPrefix(l, "(assert ") && (strings.Contains(l, "(forall ") || strings.Contains(l, "(exists ")) {
			keep := false
			for _, m := range heapFamRe.FindAllStringSubmatch(l, -1) {
				if goalFam[m[1]] {
					keep = true
					break
				}
			}
			if !keep {
				continue
			}
		}
		out = append(out, l)
	}
	return strings.Join(out, "\n")
}

// stripOpaque removes assumptions (not the goal) that mention a folded predicate.
func stripOpaque(q string) string {
	lines := strings.Split(q, "\n")
	lastAssert := -1
	for i, l := range lines {
		if strings.HasPrefix(l, "(assert ") {
			lastAssert = i
		}
	}
	var out []string
	for i, l := range lines {
		if i != lastAssert && strings.HasPrefix(l, "(assert ") && strings.Contains(l, "(op.") {
			continue
		}
		out = append(out, l)
	}
	return strings.Join(out, "\n")
}
