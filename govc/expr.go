package main

// Expression evaluation: Go expressions (real code and contract expressions alike) to SMT terms.

import (
	"fmt"
	"go/ast"
	"go/constant"
	"go/token"
	"go/types"
	"math/big"
	"strings"
)

// ---- places --------------------------------------------------------------------------

type pkind int

const (
	pVar pkind = iota
	pHeap
	pElem
	pMap
	pGlobal
)

type place struct {
	kind pkind
	obj  types.Object // pVar
	sub  []string     // pVar: path into struct value
	ref  string       // pHeap: object reference; pMap: map reference
	owner string      // pHeap: owner type key
	path string       // pHeap/pGlobal: field path (".a.b"); pElem: path inside element
	arr, idx string   // pElem
	ekey string       // pElem: element type key
	key  Val          // pMap
	mtyp *types.Map
	typ  types.Type
	name string // pGlobal
}

// PtrV: a pointer to a place that is not an object reference (e.g. &stripe.c, &c.stripes[i]).
type PtrV struct{ P place }

func (*PtrV) isVal() {}

func (vc *VC) typeOf(e ast.Expr) types.Type {
	t := vc.info.TypeOf(e)
	if t == nil {
		panic(unsupported("no type for expression at %s", vc.prog.pos(e.Pos())))
	}
	return vc.ts(t)
}

// ts applies the type-parameter substitution of the generic function bodies currently being inlined
// (Group[K, Loaded[V]].Do inlined into LoadingStore.Get: V of Group stands for the struct Loaded[V]).
func (vc *VC) ts(t types.Type) types.Type {
	for i := 0; i < 8; i++ {
		tp, ok := t.(*types.TypeParam)
		if !ok {
			return t
		}
		found := false
		for j := len(vc.tsubst) - 1; j >= 0; j-- {
			if r, ok := vc.tsubst[j][tp]; ok {
				t = r
				found = true
				break
			}
		}
		if !found {
			return t
		}
	}
	return t
}

func derefType(t types.Type) (types.Type, bool) {
	if p, ok := t.Underlying().(*types.Pointer); ok {
		return p.Elem(), true
	}
	return t, false
}

// loadPlace reads the value stored at a place.
func (vc *VC) loadPlace(st *State, p place) Val {
	switch p.kind {
	case pVar:
		v, ok := st.vars[p.obj]
		if !ok {
			if bv, ok2 := vc.bound[p.obj]; ok2 {
				v = bv
			} else {
				panic(unsupported("variable %s has no value (at %s)", p.obj.Name(), vc.prog.pos(p.obj.Pos())))
			}
		}
		for _, f := range p.sub {
			sv, ok := v.(*StructV)
			if !ok {
				panic(unsupported("field %s of non-struct value", f))
			}
			v = sv.F[f]
		}
		return v
	case pMap:
		return vc.mapRead(st, p)
	}
	v := vc.loadTyped(st, p, p.typ, "")
	if p.kind == pGlobal && nonNilGlobals[p.name] {
		// package-level error values initialised with errors.New(...) and never reassigned
		if sv, ok := v.(*Scalar); ok && sv.S == SRef {
			vc.assume(st, not(eq(sv.T, "nil")))
		}
	}
	return v
}

var nonNilGlobals = map[string]bool{"internal.VersionMismatch": true, "internal.ErrCacheClosed": true, "internal.errGoexit": true}

func (vc *VC) loadTyped(st *State, p place, t types.Type, sub string) Val {
	t = vc.ts(t)
	switch classify(t) {
	case kStruct:
		stt := t.Underlying().(*types.Struct)
		sv := &StructV{F: map[string]Val{}}
		for i := 0; i < stt.NumFields(); i++ {
			f := stt.Field(i)
			if f.Name() == "_" {
				continue
			}
			sv.Names = append(sv.Names, f.Name())
			if p.kind == pHeap && vc.prog.interior[p.owner+p.path+sub+"."+f.Name()] {
				panic(unsupported("by-value read of interior object %s", p.owner+p.path+sub+"."+f.Name()))
			}
			sv.F[f.Name()] = vc.loadTyped(st, p, f.Type(), sub+"."+f.Name())
		}
		return sv
	case kSlice:
		return &SliceV{vc.leafRead(st, p, sub+"#arr", SRef), vc.leafRead(st, p, sub+"#len", BV(64))}
	}
	s := vc.sortOf(t)
	return sc(vc.leafRead(st, p, sub, s), s)
}

func (vc *VC) leafHeap(p place, sub string, s Sort) (name string, hs Sort, idx []string) {
	switch p.kind {
	case pHeap:
		return p.owner + p.path + sub, ArrSort(SRef, s), []string{p.ref}
	case pElem:
		return "elems<" + p.ekey + p.path + sub + ">", ArrSort(SRef, ArrSort(BV(64), s)), []string{p.arr, p.idx}
	case pGlobal:
		return "glob." + p.name + p.path + sub, s, nil
	}
	panic(unsupported("leafHeap kind"))
}

func (vc *VC) leafRead(st *State, p place, sub string, s Sort) string {
	name, hs, idx := vc.leafHeap(p, sub, s)
	vc.accessHook(st, p, sub, false)
	h := vc.heapGet(st, name, hs)
	t := h
	for _, i := range idx {
		t = sel(t, i)
	}
	return t
}

func (vc *VC) leafWrite(st *State, p place, sub string, s Sort, val string) {
	name, hs, idx := vc.leafHeap(p, sub, s)
	if monotoneFlags[name] && !vc.specMode && vc.dry == 0 {
		vc.oblige(st, "lock", "monotone", vc.curPos, or(val, vc.freshRef(p.ref)), "the flag "+name+" is only ever set (other goroutines rely on it staying set)")
	}
	vc.accessHook(st, p, sub, true)
	h := vc.heapGet(st, name, hs)
	var nt string
	switch len(idx) {
	case 0:
		nt = val
	case 1:
		nt = store(h, idx[0], val)
	case 2:
		nt = store(h, idx[0], store(sel(h, idx[0]), idx[1], val))
	}
	vc.heapSet(st, name, hs, nt)
}

// storePlace writes a value to a place.
func (vc *VC) storePlace(st *State, p place, v Val) {
	switch p.kind {
	case pVar:
		if len(p.sub) == 0 {
			st.vars[p.obj] = v
			return
		}
		root, ok := st.vars[p.obj].(*StructV)
		if !ok {
			panic(unsupported("field store into non-struct var %s", p.obj.Name()))
		}
		n := root.clone()
		cur := n
		for _, f := range p.sub[:len(p.sub)-1] {
			cur = cur.F[f].(*StructV)
		}
		cur.F[p.sub[len(p.sub)-1]] = v
		st.vars[p.obj] = n
		return
	case pMap:
		vc.mapWrite(st, p, v)
		return
	}
	vc.storeTyped(st, p, p.typ, "", v)
}

func (vc *VC) storeTyped(st *State, p place, t types.Type, sub string, v Val) {
	t = vc.ts(t)
	switch x := v.(type) {
	case *StructV:
		stt := t.Underlying().(*types.Struct)
		for i := 0; i < stt.NumFields(); i++ {
			f := stt.Field(i)
			if f.Name() == "_" {
				continue
			}
			vc.storeTyped(st, p, f.Type(), sub+"."+f.Name(), x.F[f.Name()])
		}
	case *SliceV:
		vc.leafWrite(st, p, sub+"#arr", SRef, x.Arr)
		vc.leafWrite(st, p, sub+"#len", BV(64), x.Len)
	case *Scalar:
		vc.leafWrite(st, p, sub, x.S, x.T)
	case *FuncV:
		// function values stored in fields are not tracked (calls through fields use fspec contracts)
		s := vc.sortOf(t)
		vc.leafWrite(st, p, sub, s, vc.declare("funcval", s))
	case *PtrV:
		panic(unsupported("storing interior pointer into heap"))
	default:
		panic(unsupported("storeTyped %T", v))
	}
}

// resolvePlace resolves an addressable expression.
func (vc *VC) resolvePlace(st *State, e ast.Expr) place {
	switch x := e.(type) {
	case *ast.ParenExpr:
		return vc.resolvePlace(st, x.X)
	case *ast.Ident:
		obj := vc.info.ObjectOf(x)
		if obj == nil {
			panic(unsupported("unresolved identifier %s", x.Name))
		}
		if v, ok := obj.(*types.Var); ok && v.Parent() == v.Pkg().Scope() {
			return place{kind: pGlobal, name: v.Pkg().Name() + "." + v.Name(), typ: v.Type()}
		}
		return place{kind: pVar, obj: obj, typ: obj.Type()}
	case *ast.SelectorExpr:
		selInfo, ok := vc.info.Selections[x]
		if !ok {
			// qualified identifier pkg.Var
			obj := vc.info.ObjectOf(x.Sel)
			if v, ok := obj.(*types.Var); ok {
				return place{kind: pGlobal, name: v.Pkg().Name() + "." + v.Name(), typ: v.Type()}
			}
			panic(unsupported("selector %s", x.Sel.Name))
		}
		if selInfo.Kind() != types.FieldVal {
			panic(unsupported("method value as place"))
		}
		return vc.selectPath(st, x.X, selInfo)
	case *ast.IndexExpr:
		bt := vc.typeOf(x.X)
		switch u := bt.Underlying().(type) {
		case *types.Slice:
			sv := vc.eval(st, x.X).(*SliceV)
			idx := vc.evalIndex(st, x.Index)
			if !vc.specMode {
				vc.oblige(st, "index", "", x.Pos(), sx("bvult", idx, sv.Len), "slice index in range: "+exprString(x))
			}
			return place{kind: pElem, arr: sv.Arr, idx: idx, ekey: typeKey(u.Elem()), typ: u.Elem()}
		case *types.Map:
			m := vc.evalScalar(st, x.X)
			k := vc.eval(st, x.Index)
			return place{kind: pMap, ref: m.T, key: k, mtyp: u, typ: u.Elem()}
		case *types.Array:
			// arrays: modelled as a slice-like object rooted at the enclosing place
			bp := vc.resolvePlace(st, x.X)
			idx := vc.evalIndex(st, x.Index)
			if !vc.specMode {
				vc.oblige(st, "index", "", x.Pos(), sx("bvult", idx, bvLit(uint64(u.Len()), 64)), "array index in range: "+exprString(x))
			}
			if bp.kind != pHeap {
				panic(unsupported("array not in heap object"))
			}
			return place{kind: pElem, arr: bp.ref, idx: idx, ekey: bp.owner + bp.path, typ: u.Elem()}
		case *types.Pointer:
			panic(unsupported("index through pointer to array"))
		}
		panic(unsupported("index of %s", bt))
	case *ast.StarExpr:
		v := vc.eval(st, x.X)
		if pv, ok := v.(*PtrV); ok {
			return pv.P
		}
		s := v.(*Scalar)
		vc.nilCheck(st, s.T, x.Pos(), exprString(x))
		et, _ := derefType(vc.typeOf(x.X))
		return place{kind: pHeap, ref: s.T, owner: typeKey(et), typ: et}
	}
	panic(unsupported("not addressable: %T at %s", e, vc.prog.pos(e.Pos())))
}

func (vc *VC) evalIndex(st *State, e ast.Expr) string {
	s := vc.evalScalar(st, e)
	t := vc.typeOf(e)
	if s.S.Width() == 64 {
		if signedType(t) {
			// negative indices: as unsigned they are >= 2^63 and fail the bound
		}
		return s.T
	}
	return vc.convertInt(s.T, s.S.Width(), 64, signedType(t))
}

func (vc *VC) nilCheck(st *State, ref string, pos token.Pos, what string) {
	if vc.specMode {
		return
	}
	if strings.HasPrefix(ref, "(addr.") {
		return
	}
	vc.oblige(st, "nil", "", pos, not(eq(ref, "nil")), "nil dereference: "+what)
}

// selectPath follows a (possibly promoted) field selection from base expression X.
func (vc *VC) selectPath(st *State, X ast.Expr, selInfo *types.Selection) place {
	recvT := selInfo.Recv()
	var p place
	havePlace := false
	var cur Val
	// Start: is X a pointer value or an addressable struct?
	if _, isPtr := recvT.Underlying().(*types.Pointer); isPtr {
		cur = vc.eval(st, X)
	} else {
		// struct value: must be addressable to be a place; otherwise evaluate to a StructV
		if isAddressable(X) {
			p = vc.resolvePlace(st, X)
			havePlace = true
		} else {
			cur = vc.eval(st, X)
		}
	}
	t := recvT
	idxs := selInfo.Index()
	for _, fi := range idxs {
		// deref if pointer
		if pt, ok := t.Underlying().(*types.Pointer); ok {
			var refv Val
			if havePlace {
				refv = vc.loadPlace(st, p)
			} else {
				refv = cur
			}
			if pv, ok := refv.(*PtrV); ok {
				p = pv.P
			} else {
				s, ok := refv.(*Scalar)
				if !ok {
					panic(unsupported("deref of %T", refv))
				}
				vc.nilCheck(st, s.T, X.Pos(), exprString(X))
				p = place{kind: pHeap, ref: s.T, owner: typeKey(pt.Elem()), typ: pt.Elem()}
			}
			havePlace = true
			t = pt.Elem()
		}
		stt, ok := t.Underlying().(*types.Struct)
		if !ok {
			panic(unsupported("field selection on %s", t))
		}
		f := stt.Field(fi)
		if havePlace {
			p = vc.fieldOf(st, p, f)
		} else {
			sv, ok := cur.(*StructV)
			if !ok {
				panic(unsupported("field of non-struct value %T", cur))
			}
			cur = sv.F[f.Name()]
		}
		t = f.Type()
	}
	if !havePlace {
		// wrap value in a temporary variable place
		tmp := types.NewVar(token.NoPos, vc.pkg, "tmp$sel", t)
		st.vars[tmp] = cur
		return place{kind: pVar, obj: tmp, typ: t}
	}
	return p
}

func (vc *VC) fieldOf(st *State, p place, f *types.Var) place {
	n := p
	n.typ = f.Type()
	switch p.kind {
	case pVar:
		n.sub = append(append([]string{}, p.sub...), f.Name())
	case pHeap:
		full := p.owner + p.path + "." + f.Name()
		if vc.prog.interior[full] {
			fn := vc.declareFun("addr."+full, []Sort{SRef}, SRef)
			inv := vc.declareFun("inv.addr."+full, []Sort{SRef}, SRef)
			ax := "ax.addr." + full
			if !vc.declared[ax] {
				vc.declared[ax] = true
				vc.decls = append(vc.decls, fmt.Sprintf("(assert (forall ((r Ref)) (! (and (= (%s (%s r)) r) (not (= (%s r) nil))) :pattern ((%s r)))))", inv, fn, fn, fn))
			}
			return place{kind: pHeap, ref: sx(fn, p.ref), owner: typeKey(f.Type()), typ: f.Type()}
		}
		n.path = p.path + "." + f.Name()
	case pElem, pGlobal:
		n.path = p.path + "." + f.Name()
	default:
		panic(unsupported("field of place kind %d", p.kind))
	}
	return n
}

func isAddressable(e ast.Expr) bool {
	switch x := e.(type) {
	case *ast.Ident:
		return true
	case *ast.ParenExpr:
		return isAddressable(x.X)
	case *ast.SelectorExpr:
		return true
	case *ast.IndexExpr:
		return true
	case *ast.StarExpr:
		return true
	}
	return false
}

func exprString(e ast.Expr) string {
	return types.ExprString(e)
}

// ---- evaluation ---------------------------------------------------------------------

func (vc *VC) evalScalar(st *State, e ast.Expr) *Scalar {
	v := vc.eval(st, e)
	s, ok := v.(*Scalar)
	if !ok {
		panic(unsupported("expected scalar for %s, got %T (at %s)", exprString(e), v, vc.prog.pos(e.Pos())))
	}
	return s
}

func (vc *VC) evalBool(st *State, e ast.Expr) string {
	s := vc.evalScalar(st, e)
	if s.S != SBool {
		panic(unsupported("expected bool for %s", exprString(e)))
	}
	return s.T
}

func (vc *VC) constVal(tv types.TypeAndValue, e ast.Expr) Val {
	t := tv.Type
	if b, ok := t.Underlying().(*types.Basic); ok {
		switch {
		case b.Info()&types.IsBoolean != 0:
			if constant.BoolVal(tv.Value) {
				return sc("true", SBool)
			}
			return sc("false", SBool)
		case b.Info()&types.IsInteger != 0:
			w := intWidth(b)
			iv := constant.ToInt(tv.Value)
			bi, ok := constant.Val(iv).(*big.Int)
			var u uint64
			if ok {
				m := new(big.Int).And(bi, new(big.Int).SetUint64(^uint64(0)))
				if bi.Sign() < 0 {
					// two's complement
					mod := new(big.Int).Lsh(big.NewInt(1), 64)
					m = new(big.Int).Mod(bi, mod)
				}
				u = m.Uint64()
			} else if i64, ok := constant.Val(iv).(int64); ok {
				u = uint64(i64)
			}
			return sc(bvLit(u, w), BV(w))
		case b.Info()&types.IsFloat != 0:
			srt := SF64
			eb, sb := 11, 53
			if b.Kind() == types.Float32 {
				srt, eb, sb = SF32, 8, 24
			}
			r := constant.ToFloat(tv.Value)
			num := constant.Num(r)
			den := constant.Denom(r)
			ns, ds := num.ExactString(), den.ExactString()
			neg := false
			if strings.HasPrefix(ns, "-") {
				neg = true
				ns = ns[1:]
			}
			real := fmt.Sprintf("(/ %s.0 %s.0)", ns, ds)
			if neg {
				real = sx("-", real)
			}
			return sc(fmt.Sprintf("((_ to_fp %d %d) RNE %s)", eb, sb, real), srt)
		case b.Info()&types.IsString != 0:
			vc.needSort(SString)
			name := quoteName("str." + sanitizeFile(constant.StringVal(tv.Value)))
			if !vc.declared[name] {
				vc.declared[name] = true
				vc.decls = append(vc.decls, fmt.Sprintf("(declare-const %s %s)", name, SString))
			}
			return sc(name, SString)
		}
	}
	panic(unsupported("constant of type %s", t))
}

func (vc *VC) eval(st *State, e ast.Expr) Val {
	if tv, ok := vc.info.Types[e]; ok && tv.Value != nil {
		// real-typed constants in specs
		if n, ok := tv.Type.(*types.Named); ok && n.Obj().Name() == "real" {
			r := constant.ToFloat(tv.Value)
			return sc(fmt.Sprintf("(/ %s.0 %s.0)", constant.Num(r).ExactString(), constant.Denom(r).ExactString()), SReal)
		}
		if n, ok := tv.Type.(*types.Named); ok && n.Obj().Name() == "mathint" {
			bi, _ := new(big.Int).SetString(constant.ToInt(tv.Value).ExactString(), 10)
			mod := new(big.Int).Lsh(big.NewInt(1), 128)
			bi.Mod(bi, mod)
			return sc(fmt.Sprintf("(_ bv%s 128)", bi.String()), BV(128))
		}
		return vc.constVal(tv, e)
	}
	switch x := e.(type) {
	case *ast.ParenExpr:
		return vc.eval(st, x.X)
	case *ast.Ident:
		if x.Name == "nil" {
			if _, ok := vc.info.ObjectOf(x).(*types.Nil); ok {
				t := vc.typeOf(x)
				if classify(t) == kSlice {
					return &SliceV{"nil", bvLit(0, 64)}
				}
				return sc("nil", SRef)
			}
		}
		obj := vc.info.ObjectOf(x)
		if bv, ok := vc.bound[obj]; ok {
			return bv
		}
		if fn, ok := obj.(*types.Func); ok {
			return &FuncV{Name: fn.Name(), Fn: fn}
		}
		return vc.loadPlace(st, vc.resolvePlace(st, x))
	case *ast.SelectorExpr:
		if selInfo, ok := vc.info.Selections[x]; ok {
			if selInfo.Kind() == types.MethodVal {
				recv := vc.eval(st, x.X)
				return &FuncV{Name: x.Sel.Name, Fn: selInfo.Obj().(*types.Func), Recv: recv}
			}
			return vc.loadPlace(st, vc.resolvePlace(st, x))
		}
		obj := vc.info.ObjectOf(x.Sel)
		if fn, ok := obj.(*types.Func); ok {
			return &FuncV{Name: fn.Name(), Fn: fn}
		}
		return vc.loadPlace(st, vc.resolvePlace(st, x))
	case *ast.IndexExpr:
		// generic function instantiation f[T]
		if tv, ok := vc.info.Types[x.X]; ok {
			if _, isSig := tv.Type.Underlying().(*types.Signature); isSig {
				return vc.eval(st, x.X)
			}
		}
		return vc.loadPlace(st, vc.resolvePlace(st, x))
	case *ast.IndexListExpr:
		return vc.eval(st, x.X)
	case *ast.StarExpr:
		return vc.loadPlace(st, vc.resolvePlace(st, x))
	case *ast.UnaryExpr:
		return vc.evalUnary(st, x)
	case *ast.BinaryExpr:
		return vc.evalBinary(st, x)
	case *ast.CallExpr:
		return vc.evalCall(st, x)
	case *ast.CompositeLit:
		return vc.evalCompositeLit(st, x, false)
	case *ast.FuncLit:
		return &FuncV{Name: "closure", Lit: x, Env: st}
	case *ast.SliceExpr:
		return vc.evalSliceExpr(st, x)
	case *ast.TypeAssertExpr:
		v := vc.eval(st, x.X)
		return v // dynamic type is not modelled; the assertion is assumed to succeed (A-POOL)
	case *ast.BasicLit:
		panic(unsupported("literal without constant value"))
	}
	panic(unsupported("expression %T at %s", e, vc.prog.pos(e.Pos())))
}

func (vc *VC) evalSliceExpr(st *State, x *ast.SliceExpr) Val {
	sv, ok := vc.eval(st, x.X).(*SliceV)
	if !ok {
		panic(unsupported("slice expression on non-slice"))
	}
	if x.Low != nil {
		lo := vc.evalScalar(st, x.Low)
		if lo.T != bvLit(0, 64) {
			panic(unsupported("re-slicing with non-zero low bound"))
		}
	}
	if x.High == nil {
		return sv
	}
	hi := vc.evalIndex(st, x.High)
	if !vc.specMode {
		// hi <= cap is required; we only know len, so demand hi <= len (true for [:0])
		vc.oblige(st, "index", "", x.Pos(), sx("bvule", hi, sv.Len), "slice bound in range: "+exprString(x))
	}
	return &SliceV{sv.Arr, hi}
}

func (vc *VC) evalUnary(st *State, x *ast.UnaryExpr) Val {
	switch x.Op {
	case token.AND:
		if cl, ok := unparen(x.X).(*ast.CompositeLit); ok {
			return vc.evalCompositeLit(st, cl, true)
		}
		p := vc.resolvePlace(st, x.X)
		if p.kind == pHeap && p.path == "" {
			return sc(p.ref, SRef) // pointer to (interior) object
		}
		if p.kind == pVar && len(p.sub) == 0 && classify(p.typ) == kStruct {
			// &local for a struct-valued local: the variable escapes; model it as a heap object
			// initialised from the current value (the local is not used afterwards in this code base:
			// `c := T{...}; return &c`)
			if sv, ok := st.vars[p.obj].(*StructV); ok {
				ref := vc.alloc(st, typeKey(p.typ))
				hp := place{kind: pHeap, ref: ref, owner: typeKey(p.typ), typ: p.typ}
				vc.initObject(st, hp, p.typ, sv)
				return sc(ref, SRef)
			}
		}
		return &PtrV{p}
	case token.NOT:
		return sc(not(vc.evalBool(st, x.X)), SBool)
	case token.SUB:
		s := vc.evalScalar(st, x.X)
		if s.S.IsBV() {
			return sc(sx("bvneg", s.T), s.S)
		}
		if s.S == SReal || s.S == SInt {
			return sc(sx("-", s.T), s.S)
		}
		return sc(sx("fp.neg", s.T), s.S)
	case token.XOR:
		s := vc.evalScalar(st, x.X)
		return sc(sx("bvnot", s.T), s.S)
	case token.ADD:
		return vc.eval(st, x.X)
	case token.ARROW:
		return vc.chanRecv(st, x)
	}
	panic(unsupported("unary %s", x.Op))
}

func unparen(e ast.Expr) ast.Expr {
	for {
		p, ok := e.(*ast.ParenExpr)
		if !ok {
			return e
		}
		e = p.X
	}
}

func (vc *VC) convertInt(t string, from, to int, signed bool) string {
	switch {
	case from == to:
		return t
	case from > to:
		return fmt.Sprintf("((_ extract %d 0) %s)", to-1, t)
	case signed:
		return fmt.Sprintf("((_ sign_extend %d) %s)", to-from, t)
	default:
		return fmt.Sprintf("((_ zero_extend %d) %s)", to-from, t)
	}
}

func (vc *VC) evalBinary(st *State, x *ast.BinaryExpr) Val {
	switch x.Op {
	case token.LAND, token.LOR:
		a := vc.evalBool(st, x.X)
		if vc.specMode {
			b := vc.evalBool(st, x.Y)
			if x.Op == token.LAND {
				return sc(and(a, b), SBool)
			}
			return sc(or(a, b), SBool)
		}
		// evaluate the right operand under the short-circuit condition
		cond := a
		if x.Op == token.LOR {
			cond = not(a)
		}
		r := st.clone()
		r.pc = vc.newPC(and(st.pc, cond))
		b := vc.evalBool(r, x.Y)
		// propagate side effects of the right operand
		l := st.clone()
		l.pc = vc.newPC(and(st.pc, not(cond)))
		m := vc.merge2(r, l)
		st.vars, st.heap = m.vars, m.heap
		if x.Op == token.LAND {
			return sc(and(a, b), SBool)
		}
		return sc(or(a, b), SBool)
	}
	lt := vc.typeOf(x.X)
	// comparisons of composite values
	if x.Op == token.EQL || x.Op == token.NEQ {
		lv := vc.eval(st, x.X)
		rv := vc.eval(st, x.Y)
		t := vc.valEq(lv, rv)
		if x.Op == token.NEQ {
			t = not(t)
		}
		return sc(t, SBool)
	}
	a := vc.evalScalar(st, x.X)
	b := vc.evalScalar(st, x.Y)
	signed := signedType(lt)
	if x.Op == token.SHL || x.Op == token.SHR {
		return vc.shift(x.Op, a, b, signed, signedType(vc.typeOf(x.Y)))
	}
	if a.S == SReal || a.S == SInt {
		ops := map[token.Token]string{token.ADD: "+", token.SUB: "-", token.MUL: "*", token.QUO: "/", token.LSS: "<", token.LEQ: "<=", token.GTR: ">", token.GEQ: ">="}
		op, ok := ops[x.Op]
		if !ok {
			panic(unsupported("real op %s", x.Op))
		}
		rs := a.S
		if x.Op == token.LSS || x.Op == token.LEQ || x.Op == token.GTR || x.Op == token.GEQ {
			rs = SBool
		}
		return sc(sx(op, a.T, b.T), rs)
	}
	if a.S == SF32 || a.S == SF64 {
		switch x.Op {
		case token.ADD:
			return sc(sx("fp.add", "RNE", a.T, b.T), a.S)
		case token.SUB:
			return sc(sx("fp.sub", "RNE", a.T, b.T), a.S)
		case token.MUL:
			return sc(sx("fp.mul", "RNE", a.T, b.T), a.S)
		case token.QUO:
			return sc(sx("fp.div", "RNE", a.T, b.T), a.S)
		case token.LSS:
			return sc(sx("fp.lt", a.T, b.T), SBool)
		case token.LEQ:
			return sc(sx("fp.leq", a.T, b.T), SBool)
		case token.GTR:
			return sc(sx("fp.gt", a.T, b.T), SBool)
		case token.GEQ:
			return sc(sx("fp.geq", a.T, b.T), SBool)
		}
		panic(unsupported("float op %s", x.Op))
	}
	if !a.S.IsBV() {
		panic(unsupported("binary %s on sort %s", x.Op, a.S))
	}
	if a.S != b.S {
		panic(unsupported("width mismatch in %s: %s vs %s at %s", exprString(x), a.S, b.S, vc.prog.pos(x.Pos())))
	}
	var op string
	res := a.S
	switch x.Op {
	case token.ADD:
		op = "bvadd"
	case token.SUB:
		op = "bvsub"
	case token.MUL:
		op = "bvmul"
	case token.QUO:
		if k, ok := pow2Lit(b.T, b.S.Width()); ok && !signed {
			return sc(sx("bvlshr", a.T, bvLit(uint64(k), a.S.Width())), res)
		}
		if !vc.specMode {
			vc.oblige(st, "div", "", x.Pos(), not(eq(b.T, bvLit(0, b.S.Width()))), "division by zero: "+exprString(x))
		}
		op = "bvudiv"
		if signed {
			op = "bvsdiv"
		}
	case token.REM:
		if k, ok := pow2Lit(b.T, b.S.Width()); ok && !signed {
			return sc(sx("bvand", a.T, bvLit((uint64(1)<<uint(k))-1, a.S.Width())), res)
		}
		if !vc.specMode {
			vc.oblige(st, "div", "", x.Pos(), not(eq(b.T, bvLit(0, b.S.Width()))), "division by zero: "+exprString(x))
		}
		op = "bvurem"
		if signed {
			op = "bvsrem"
		}
	case token.AND:
		op = "bvand"
	case token.OR:
		op = "bvor"
	case token.XOR:
		op = "bvxor"
	case token.AND_NOT:
		return sc(sx("bvand", a.T, sx("bvnot", b.T)), res)
	case token.LSS, token.LEQ, token.GTR, token.GEQ:
		res = SBool
		u := map[token.Token]string{token.LSS: "bvult", token.LEQ: "bvule", token.GTR: "bvugt", token.GEQ: "bvuge"}
		s := map[token.Token]string{token.LSS: "bvslt", token.LEQ: "bvsle", token.GTR: "bvsgt", token.GEQ: "bvsge"}
		if signed {
			op = s[x.Op]
		} else {
			op = u[x.Op]
		}
	default:
		panic(unsupported("binary op %s", x.Op))
	}
	return sc(sx(op, a.T, b.T), res)
}

func (vc *VC) shift(op token.Token, a, b *Scalar, signedL, signedR bool) Val {
	w := a.S.Width()
	wc := b.S.Width()
	cnt := b.T
	var big string // condition "count >= w" when the count is wider than the operand
	if wc > w {
		big = sx("bvuge", cnt, bvLit(uint64(w), wc))
		cnt = fmt.Sprintf("((_ extract %d 0) %s)", w-1, cnt)
	} else if wc < w {
		cnt = fmt.Sprintf("((_ zero_extend %d) %s)", w-wc, cnt)
	}
	var t string
	switch {
	case op == token.SHL:
		t = sx("bvshl", a.T, cnt)
		if big != "" {
			t = ite(big, bvLit(0, w), t)
		}
	case signedL:
		t = sx("bvashr", a.T, cnt)
		if big != "" {
			t = ite(big, sx("bvashr", a.T, bvLit(uint64(w-1), w)), t)
		}
	default:
		t = sx("bvlshr", a.T, cnt)
		if big != "" {
			t = ite(big, bvLit(0, w), t)
		}
	}
	return sc(t, a.S)
}

func (vc *VC) valEq(a, b Val) string {
	switch x := a.(type) {
	case *Scalar:
		y, ok := b.(*Scalar)
		if !ok {
			if sv, ok := b.(*SliceV); ok && x.T == "nil" {
				return eq(sv.Arr, "nil")
			}
			panic(unsupported("comparison of scalar with %T", b))
		}
		if x.S == SF32 || x.S == SF64 {
			return sx("fp.eq", x.T, y.T)
		}
		return eq(x.T, y.T)
	case *StructV:
		y := b.(*StructV)
		var cs []string
		for _, f := range x.Names {
			cs = append(cs, vc.valEq(x.F[f], y.F[f]))
		}
		return and(cs...)
	case *SliceV:
		if y, ok := b.(*SliceV); ok {
			// only comparison with nil is legal Go; spec may compare slices structurally
			return and(eq(x.Arr, y.Arr), eq(x.Len, y.Len))
		}
		if y, ok := b.(*Scalar); ok && y.T == "nil" {
			return eq(x.Arr, "nil")
		}
	case *PtrV:
		panic(unsupported("comparison of interior pointers"))
	}
	panic(unsupported("comparison of %T", a))
}

// convert implements T(x) for scalar types.
func (vc *VC) convert(st *State, v Val, from, to types.Type) Val {
	s, ok := v.(*Scalar)
	if !ok {
		return v
	}
	ts := vc.sortOf(to)
	if s.S == ts {
		return sc(s.T, ts)
	}
	switch {
	case s.S.IsBV() && ts.IsBV():
		return sc(vc.convertInt(s.T, s.S.Width(), ts.Width(), signedType(from)), ts)
	case s.S.IsBV() && (ts == SF32 || ts == SF64):
		eb, sb := 11, 53
		if ts == SF32 {
			eb, sb = 8, 24
		}
		if signedType(from) {
			return sc(fmt.Sprintf("((_ to_fp %d %d) RNE %s)", eb, sb, s.T), ts)
		}
		return sc(fmt.Sprintf("((_ to_fp_unsigned %d %d) RNE %s)", eb, sb, s.T), ts)
	case (s.S == SF32 || s.S == SF64) && ts.IsBV():
		// Go: float->int truncates toward zero; out-of-range is implementation-defined.
		if signedType(to) {
			return sc(fmt.Sprintf("((_ fp.to_sbv %d) RTZ %s)", ts.Width(), s.T), ts)
		}
		return sc(fmt.Sprintf("((_ fp.to_ubv %d) RTZ %s)", ts.Width(), s.T), ts)
	case (s.S == SF32 || s.S == SF64) && (ts == SF32 || ts == SF64):
		eb, sb := 11, 53
		if ts == SF32 {
			eb, sb = 8, 24
		}
		return sc(fmt.Sprintf("((_ to_fp %d %d) RNE %s)", eb, sb, s.T), ts)
	case s.S.IsBV() && ts == SInt:
		if signedType(from) {
			// signed value of the bit-vector
			w := s.S.Width()
			u := sx("bv2nat", s.T)
			return sc(ite(sx("bvslt", s.T, bvLit(0, w)), sx("-", u, new(big.Int).Lsh(big.NewInt(1), uint(w)).String()), u), SInt)
		}
		return sc(sx("bv2nat", s.T), SInt)
	case s.S == SInt && ts == SReal:
		return sc(sx("to_real", s.T), SReal)
	}
	if s.S == SRef && ts == SRef {
		return s
	}
	panic(unsupported("conversion %s -> %s", from, to))
}

func (vc *VC) evalCompositeLit(st *State, x *ast.CompositeLit, addr bool) Val {
	t := vc.typeOf(x)
	switch u := t.Underlying().(type) {
	case *types.Struct:
		sv := vc.zeroVal(t).(*StructV)
		for i, el := range x.Elts {
			if kv, ok := el.(*ast.KeyValueExpr); ok {
				name := kv.Key.(*ast.Ident).Name
				sv.F[name] = vc.evalAssignable(st, kv.Value)
			} else {
				sv.F[u.Field(i).Name()] = vc.evalAssignable(st, el)
			}
		}
		if !addr {
			return sv
		}
		ref := vc.alloc(st, typeKey(t))
		p := place{kind: pHeap, ref: ref, owner: typeKey(t), typ: t}
		vc.initObject(st, p, t, sv)
		return sc(ref, SRef)
	case *types.Slice:
		arr := vc.alloc(st, "array")
		n := len(x.Elts)
		for i, el := range x.Elts {
			if _, ok := el.(*ast.KeyValueExpr); ok {
				panic(unsupported("keyed slice literal"))
			}
			v := vc.evalAssignable(st, el)
			p := place{kind: pElem, arr: arr, idx: bvLit(uint64(i), 64), ekey: typeKey(u.Elem()), typ: u.Elem()}
			vc.storePlace(st, p, v)
		}
		return &SliceV{arr, bvLit(uint64(n), 64)}
	case *types.Map:
		if len(x.Elts) != 0 {
			panic(unsupported("non-empty map literal"))
		}
		return vc.newMap(st, u)
	}
	panic(unsupported("composite literal of %s", t))
}

// initObject stores all fields of a fresh object (interior objects are zero-initialised in place).
func (vc *VC) initObject(st *State, p place, t types.Type, sv *StructV) {
	stt := t.Underlying().(*types.Struct)
	for i := 0; i < stt.NumFields(); i++ {
		f := stt.Field(i)
		if f.Name() == "_" {
			continue
		}
		if vc.prog.interior[p.owner+p.path+"."+f.Name()] {
			ip := vc.fieldOf(st, p, f)
			vc.initObject(st, ip, f.Type(), sv.F[f.Name()].(*StructV))
			continue
		}
		fp := vc.fieldOf(st, p, f)
		vc.storeTyped(st, fp, f.Type(), "", sv.F[f.Name()])
	}
}

// evalAssignable evaluates an expression whose value will be copied (struct values are cloned).
func (vc *VC) evalAssignable(st *State, e ast.Expr) Val {
	v := vc.eval(st, e)
	if sv, ok := v.(*StructV); ok {
		return sv.clone()
	}
	return v
}

// alloc creates a fresh non-nil reference distinct from everything allocated so far.
func (vc *VC) alloc(st *State, what string) string {
	r := vc.declare("new."+what, SRef)
	al := vc.heapGet(st, "alloc", ArrSort(SRef, SBool))
	vc.assume(st, and(not(eq(r, "nil")), not(sel(al, r))))
	vc.heapSet(st, "alloc", ArrSort(SRef, SBool), store(al, r, "true"))
	vc.assumeUnreachable(st, r, false)
	return r
}

// assumeUnreachable: no reference stored in the heap (fields, map values, slice elements) points to r.
// mapsOnly: only map values (used for objects taken from a sync.Pool, A-POOL: pooled entries have left
// every shard map).
func (vc *VC) assumeUnreachable(st *State, r string, mapsOnly bool) {
	save := vc.curLabel
	vc.curLabel = "alloc.unreachable"
	for _, h := range sortedKeys(boolKeysSort(vc.heapSort)) {
		srt := string(vc.heapSort[h])
		cur, ok := st.heap[h]
		if !ok {
			cur, ok = vc.baseHeap[h]
		}
		if !ok || strings.HasPrefix(cur, "?havoc") {
			continue
		}
		switch {
		case srt == "(Array Ref Ref)" && mapsOnly:
		case strings.HasPrefix(srt, "(Array Ref (Array ") && mapsOnly && !strings.HasPrefix(h, "mapval<"):
		case srt == "(Array Ref Ref)":
			vc.assume(st, fmt.Sprintf("(forall ((x?al Ref)) (! (not (= (select %s x?al) %s)) :pattern ((select %s x?al))))", cur, r, cur))
		case strings.HasPrefix(srt, "(Array Ref (Array ") && strings.HasSuffix(srt, " Ref))"):
			ks := strings.TrimSuffix(strings.TrimPrefix(srt, "(Array Ref (Array "), " Ref))")
			vc.assume(st, fmt.Sprintf("(forall ((x?al Ref) (y?al %s)) (! (not (= (select (select %s x?al) y?al) %s)) :pattern ((select (select %s x?al) y?al))))", ks, cur, r, cur))
		}
	}
	vc.curLabel = save
}

func boolKeysSort(m map[string]Sort) map[string]bool {
	o := map[string]bool{}
	for k := range m {
		o[k] = true
	}
	return o
}

// assumeAllocated records that a reference obtained from a parameter or the heap is allocated (or nil).
func (vc *VC) assumeAllocated(st *State, ref string) {
	if ref == "nil" {
		return
	}
	al := vc.heapGet(st, "alloc", ArrSort(SRef, SBool))
	vc.assume(st, or(eq(ref, "nil"), sel(al, ref)))
}

func constantInt64(tv types.TypeAndValue) (int64, bool) {
	if tv.Value == nil {
		return 0, false
	}
	return constant.Int64Val(constant.ToInt(tv.Value))
}

// pow2Lit recognises a bit-vector literal that is a power of two and returns its exponent.
func pow2Lit(t string, w int) (int, bool) {
	if !strings.HasPrefix(t, "#x") || w > 64 {
		return 0, false
	}
	var v uint64
	if _, err := fmt.Sscanf(t[2:], "%x", &v); err != nil || v == 0 || v&(v-1) != 0 {
		return 0, false
	}
	k := 0
	for v > 1 {
		v >>= 1
		k++
	}
	return k, true
}
