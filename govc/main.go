package main

import (
	"path/filepath"
	"flag"
	"fmt"
	"os"
	"sort"
	"strings"
	"time"
)

func main() {
	repo := flag.String("repo", "/repo", "repository root")
	timeout := flag.Duration("timeout", 10*time.Second, "per-solver timeout")
	work := flag.String("work", "/tmp/govc-work", "scratch directory for queries")
	keep := flag.Bool("keep", false, "keep discharged query files")
	par := flag.Int("par", 12, "parallel obligations")
	verif := flag.String("verif", "/verif", "verification directory")
	tier := flag.String("tier", "quick", "quick | thorough")
	showModel := flag.String("model", "", "verify: print the model of failing obligations whose name contains this string")
	flag.Parse()
	keepQueries = *keep
	if sf := os.Getenv("GOVC_STATS"); sf != "" {
		statsFile, _ = os.OpenFile(sf, os.O_CREATE|os.O_APPEND|os.O_WRONLY, 0o644)
	}
	args := flag.Args()
	if len(args) == 0 {
		fmt.Println("usage: govc [flags] verify <funcKey>... | list")
		os.Exit(2)
	}
	{
		var kfs []KnownFinding
		if loadJSON(filepath.Join(*verif, "known_findings.json"), &kfs) == nil {
			for _, k := range kfs {
				if k.Status != "fixed" {
					knownFailing[k.Obligation] = true
				}
			}
		}
	}
	prog, err := loadProgram(*repo)
	if err != nil {
		fmt.Println("LOAD ERROR:", err)
		if le, ok := err.(*LoadError); ok && len(args) > 1 && args[0] == "check" {
			os.Exit(loadErrorVerdict(le, *verif, *repo, args[1]))
		}
		os.Exit(2)
	}
	switch args[0] {
	case "check", "relock":
		seed := int64(0)
		if v := os.Getenv("VERIF_SEED"); v != "" {
			fmt.Sscan(v, &seed)
		}
		os.Exit(runCheck(prog, *verif, args[1], *tier, seed, args[0] == "relock", *par))
	case "list":
		for _, k := range prog.funcKeys() {
			fi := prog.funcs[k]
			fmt.Printf("%-60s spec=%v loops=%d\n", k, fi.Spec != nil, len(fi.Loops))
		}
	case "verify":
		var results []*FuncResult
		for _, k := range args[1:] {
			if strings.Contains(k, "lemma_") {
				si, ok := prog.lemmas[k]
				if !ok {
					fmt.Println("no such lemma", k)
					os.Exit(2)
				}
				results = append(results, prog.verifyLemma(k, si))
				continue
			}
			fi, ok := prog.funcs[k]
			if !ok {
				fmt.Println("no such function", k)
				os.Exit(2)
			}
			results = append(results, prog.verifyFunc(fi))
		}
		dischargeAll(results, *timeout, *work, *par, nil)
		bad := 0
		for _, r := range results {
			fmt.Printf("== %s (gen %.2fs) mods=%v\n", r.Key, r.GenS, r.Mods)
			if r.Err != nil {
				fmt.Println("   ERROR:", r.Err)
				bad++
			}
			for _, n := range r.Notes {
				fmt.Println("   note:", n)
			}
			if r.vc != nil && r.vc.canary != nil {
				res := solve(r.vc.query(r.vc.canary, false), 5*time.Second, *work, r.vc.canary.Name, false)
				if res.Status == "unsat" {
					fmt.Println("   VACUOUS: false is provable at exit (contradictory hypotheses)")
					bad++
				}
			}
			for _, o := range r.Obls {
				mark := "ok  "
				if o.Res.Status != "unsat" {
					mark = "FAIL"
					bad++
				}
				fmt.Printf("   %s %-70s %-8s %-14s %.2fs  %s\n", mark, o.Name, o.Res.Status, o.Res.Solver, o.Res.TimeS, o.Pos)
				if o.Res.Status != "unsat" && strings.HasPrefix(o.Res.Output, "; failing part") {
					l := strings.SplitN(o.Res.Output, "\n", 2)[0]
					if len(l) > 700 {
						l = l[:700]
					}
					fmt.Println("        " + l)
				}
				if *showModel != "" && o.Res.Status == "sat" && strings.Contains(o.Name, *showModel) {
					m := parseModel(o.Res.Output)
					var ks []string
					for k := range m {
						if strings.HasPrefix(k, "pc!") || strings.HasPrefix(k, "H.alloc") || strings.HasPrefix(k, "H.lock") || len(m[k]) > 120 {
							continue
						}
						ks = append(ks, k)
					}
					sort.Strings(ks)
					for _, k := range ks {
						fmt.Printf("        %s = %s\n", k, m[k])
					}
				}
			}
		}
		if bad > 0 {
			os.Exit(1)
		}
	}
}
