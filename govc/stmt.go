package main

// Statement execution: forward symbolic execution with merging at joins, loops cut at invariants.

import (
	"fmt"
	"go/ast"
	"go/token"
	"go/types"
	"sort"
	"strings"
)

func (vc *VC) curFrame() *frame { return vc.frames[len(vc.frames)-1] }

// execBlock executes statements; returns the fall-through state or nil.
func (vc *VC) execBlock(st *State, list []ast.Stmt) *State {
	for _, s := range list {
		if st == nil || st.pc == "false" {
			return nil
		}
		st = vc.exec(st, s, "")
	}
	return st
}

func (vc *VC) exec(st *State, s ast.Stmt, label string) *State {
	if s.Pos().IsValid() {
		vc.curPos = s.Pos()
	}
	switch x := s.(type) {
	case *ast.BlockStmt:
		return vc.execBlock(st, x.List)
	case *ast.ExprStmt:
		vc.eval(st, x.X)
		if st.pc == "false" {
			return nil
		}
		return st
	case *ast.AssignStmt:
		vc.execAssign(st, x)
		return st
	case *ast.IncDecStmt:
		p := vc.resolvePlace(st, x.X)
		v := vc.loadPlace(st, p).(*Scalar)
		op := "bvadd"
		if x.Tok == token.DEC {
			op = "bvsub"
		}
		vc.storePlace(st, p, sc(vc.define(nameOfExpr(x.X), v.S, sx(op, v.T, bvLit(1, v.S.Width()))), v.S))
		return st
	case *ast.DeclStmt:
		gd := x.Decl.(*ast.GenDecl)
		for _, spec := range gd.Specs {
			vs, ok := spec.(*ast.ValueSpec)
			if !ok {
				continue
			}
			for i, n := range vs.Names {
				obj := vc.info.ObjectOf(n)
				if len(vs.Values) > i {
					st.vars[obj] = vc.convertAssign(st, vc.evalAssignable(st, vs.Values[i]), vc.typeOf(vs.Values[i]), obj.Type())
				} else if len(vs.Values) == 1 && len(vs.Names) > 1 {
					panic(unsupported("var a, b = f()"))
				} else {
					st.vars[obj] = vc.zeroVal(obj.Type())
				}
			}
		}
		return st
	case *ast.IfStmt:
		return vc.execIf(st, x)
	case *ast.ForStmt:
		return vc.execFor(st, x, label)
	case *ast.RangeStmt:
		return vc.execRange(st, x, label)
	case *ast.SwitchStmt:
		return vc.execSwitch(st, x, label)
	case *ast.ReturnStmt:
		vc.execReturn(st, x)
		return nil
	case *ast.BranchStmt:
		fr := vc.curFrame()
		l := ""
		if x.Label != nil {
			l = x.Label.Name
		}
		switch x.Tok {
		case token.BREAK:
			fr.breaks[l] = append(fr.breaks[l], st)
		case token.CONTINUE:
			fr.conts[l] = append(fr.conts[l], st)
		default:
			panic(unsupported("branch %s", x.Tok))
		}
		return nil
	case *ast.LabeledStmt:
		return vc.exec(st, x.Stmt, x.Label.Name)
	case *ast.DeferStmt:
		vc.execDefer(st, x)
		return st
	case *ast.GoStmt:
		vc.execGo(st, x)
		return st
	case *ast.SendStmt:
		vc.chanSend(st, x)
		return st
	case *ast.SelectStmt:
		return vc.execSelect(st, x, label)
	case *ast.EmptyStmt:
		return st
	}
	panic(unsupported("statement %T at %s", s, vc.prog.pos(s.Pos())))
}

func nameOfExpr(e ast.Expr) string {
	switch x := e.(type) {
	case *ast.Ident:
		return x.Name
	case *ast.SelectorExpr:
		return x.Sel.Name
	}
	return "t"
}

func (vc *VC) convertAssign(st *State, v Val, from, to types.Type) Val {
	// untyped nil to slice etc.
	if s, ok := v.(*Scalar); ok && s.T == "nil" && classify(to) == kSlice {
		return &SliceV{"nil", bvLit(0, 64)}
	}
	return v
}

func (vc *VC) nameVal(v Val, name string) Val {
	if s, ok := v.(*Scalar); ok {
		return sc(vc.define(name, s.S, s.T), s.S)
	}
	return v
}

func (vc *VC) execAssign(st *State, x *ast.AssignStmt) {
	// op-assign
	if x.Tok != token.ASSIGN && x.Tok != token.DEFINE {
		op := map[token.Token]token.Token{token.ADD_ASSIGN: token.ADD, token.SUB_ASSIGN: token.SUB, token.MUL_ASSIGN: token.MUL,
			token.QUO_ASSIGN: token.QUO, token.REM_ASSIGN: token.REM, token.AND_ASSIGN: token.AND, token.OR_ASSIGN: token.OR,
			token.XOR_ASSIGN: token.XOR, token.SHL_ASSIGN: token.SHL, token.SHR_ASSIGN: token.SHR, token.AND_NOT_ASSIGN: token.AND_NOT}[x.Tok]
		be := &ast.BinaryExpr{X: x.Lhs[0], Op: op, Y: x.Rhs[0], OpPos: x.TokPos}
		// type info for the synthetic node: evaluate manually
		p := vc.resolvePlace(st, x.Lhs[0])
		a := vc.loadPlace(st, p).(*Scalar)
		b := vc.evalScalar(st, x.Rhs[0])
		v := vc.binaryOnScalars(st, be, op, a, b, vc.typeOf(x.Lhs[0]), vc.typeOf(x.Rhs[0]))
		vc.storePlace(st, p, vc.nameVal(v, nameOfExpr(x.Lhs[0])))
		return
	}
	var vals []Val
	if len(x.Rhs) == 1 && len(x.Lhs) > 1 {
		// tuple: call, map comma-ok, type assert, channel receive
		switch r := unparen(x.Rhs[0]).(type) {
		case *ast.IndexExpr:
			if mt, ok := vc.typeOf(r.X).Underlying().(*types.Map); ok {
				m := vc.evalScalar(st, r.X)
				k := vc.eval(st, r.Index)
				v, okT, vs := vc.mapLookup(st, m.T, mt, k)
				vals = []Val{sc(v, vs), sc(okT, SBool)}
			}
		case *ast.TypeAssertExpr:
			v := vc.eval(st, r.X)
			okc := vc.declare("assert.ok", SBool)
			if sv, isS := v.(*Scalar); isS && sv.S == SRef {
				// no typed-nil pointers are stored in interfaces/pools in this code base (A-POOL)
				vc.assume(st, implies(okc, not(eq(sv.T, "nil"))))
			}
			vals = []Val{v, sc(okc, SBool)}
		}
		if vals == nil {
			tv := vc.eval(st, x.Rhs[0])
			t, ok := tv.(*TupleV)
			if !ok || len(t.Vs) != len(x.Lhs) {
				panic(unsupported("tuple assignment mismatch at %s", vc.prog.pos(x.Pos())))
			}
			vals = t.Vs
		}
	} else {
		for _, r := range x.Rhs {
			vals = append(vals, vc.evalAssignable(st, r))
		}
	}
	// resolve places first for = (Go evaluates index/pointer operands on the left before assigning)
	for i, l := range x.Lhs {
		if id, ok := l.(*ast.Ident); ok && id.Name == "_" {
			continue
		}
		v := vals[i]
		if id, ok := l.(*ast.Ident); ok {
			obj := vc.info.ObjectOf(id)
			if _, isVar := obj.(*types.Var); isVar {
				if pv, ok := obj.(*types.Var); ok && pv.Parent() != pv.Pkg().Scope() {
					st.vars[obj] = vc.nameVal(vc.convertAssign(st, v, nil, obj.Type()), id.Name)
					continue
				}
			}
		}
		p := vc.resolvePlace(st, l)
		vc.storePlace(st, p, vc.convertAssign(st, v, nil, p.typ))
	}
}

func (vc *VC) binaryOnScalars(st *State, be *ast.BinaryExpr, op token.Token, a, b *Scalar, lt, rt types.Type) Val {
	// reuse evalBinary's logic through temporary bindings
	la := types.NewVar(token.NoPos, vc.pkg, "opl$", lt)
	ra := types.NewVar(token.NoPos, vc.pkg, "opr$", rt)
	li, ri := ast.NewIdent("opl$"), ast.NewIdent("opr$")
	vc.info.Uses[li] = la
	vc.info.Uses[ri] = ra
	vc.info.Types[li] = types.TypeAndValue{Type: lt}
	vc.info.Types[ri] = types.TypeAndValue{Type: rt}
	st.vars[la], st.vars[ra] = a, b
	nb := &ast.BinaryExpr{X: li, Op: op, Y: ri}
	v := vc.evalBinary(st, nb)
	delete(st.vars, la)
	delete(st.vars, ra)
	delete(vc.info.Uses, li)
	delete(vc.info.Uses, ri)
	delete(vc.info.Types, li)
	delete(vc.info.Types, ri)
	return v
}

func (vc *VC) execIf(st *State, x *ast.IfStmt) *State {
	if x.Init != nil {
		st = vc.exec(st, x.Init, "")
		if st == nil {
			return nil
		}
	}
	c := vc.evalBool(st, x.Cond)
	if st.pc == "false" {
		return nil
	}
	cn := vc.newPC(c)
	if vc.dry == 0 && cn != "true" && cn != "false" {
		vc.conds = append(vc.conds, condRec{cn, len(vc.trace)})
	}
	if vc.oracle != nil && vc.dry == 0 {
		// path-split mode: follow exactly one branch (a literally constant condition is not a branch)
		if cn == "true" {
			return vc.execBlock(st, x.Body.List)
		}
		if cn == "false" {
			if x.Else != nil {
				return vc.exec(st, x.Else, "")
			}
			return st
		}
		if vc.oracle.next() {
			st.pc = vc.newPC(and(st.pc, cn))
			return vc.execBlock(st, x.Body.List)
		}
		st.pc = vc.newPC(and(st.pc, not(cn)))
		if x.Else != nil {
			return vc.exec(st, x.Else, "")
		}
		return st
	}
	t := st.clone()
	t.pc = vc.newPC(and(st.pc, cn))
	e := st.clone()
	e.pc = vc.newPC(and(st.pc, not(cn)))
	tEnd := vc.execBlock(t, x.Body.List)
	var eEnd *State
	if x.Else != nil {
		eEnd = vc.exec(e, x.Else, "")
	} else {
		eEnd = e
	}
	return vc.merge([]*State{tEnd, eEnd})
}

func (vc *VC) execSwitch(st *State, x *ast.SwitchStmt, label string) *State {
	if x.Init != nil {
		st = vc.exec(st, x.Init, "")
	}
	var tag Val
	if x.Tag != nil {
		tag = vc.eval(st, x.Tag)
	}
	fr := vc.curFrame()
	saveB, saveBL := fr.breaks[""], fr.breaks[label]
	fr.breaks[""] = nil
	if label != "" {
		fr.breaks[label] = nil
	}
	var ends []*State
	rest := st
	var deflt *ast.CaseClause
	for _, cs := range x.Body.List {
		cc := cs.(*ast.CaseClause)
		if cc.List == nil {
			deflt = cc
			continue
		}
		var conds []string
		for _, e := range cc.List {
			if tag != nil {
				conds = append(conds, vc.valEq(tag, vc.eval(rest, e)))
			} else {
				conds = append(conds, vc.evalBool(rest, e))
			}
		}
		c := vc.newPC(or(conds...))
		if vc.oracle != nil && vc.dry == 0 {
			if vc.oracle.next() {
				rest.pc = vc.newPC(and(rest.pc, c))
				ends = append(ends, vc.execBlock(rest, cc.Body))
				rest = nil
				deflt = nil
				break
			}
			rest.pc = vc.newPC(and(rest.pc, not(c)))
			continue
		}
		b := rest.clone()
		b.pc = vc.newPC(and(rest.pc, c))
		nr := rest.clone()
		nr.pc = vc.newPC(and(rest.pc, not(c)))
		rest = nr
		for _, s := range cc.Body {
			if br, ok := s.(*ast.BranchStmt); ok && br.Tok == token.FALLTHROUGH {
				panic(unsupported("fallthrough"))
			}
		}
		ends = append(ends, vc.execBlock(b, cc.Body))
	}
	if deflt != nil {
		ends = append(ends, vc.execBlock(rest, deflt.Body))
	} else if rest != nil {
		ends = append(ends, rest)
	}
	ends = append(ends, fr.breaks[""]...)
	if label != "" {
		ends = append(ends, fr.breaks[label]...)
		fr.breaks[label] = saveBL
	}
	fr.breaks[""] = saveB
	return vc.merge(ends)
}

func (vc *VC) execReturn(st *State, x *ast.ReturnStmt) {
	fr := vc.curFrame()
	if len(x.Results) > 0 {
		var vals []Val
		if len(x.Results) == 1 && len(fr.results) > 1 {
			vals = vc.eval(st, x.Results[0]).(*TupleV).Vs
		} else {
			for _, r := range x.Results {
				vals = append(vals, vc.evalAssignable(st, r))
			}
		}
		for i, r := range fr.results {
			st.vars[r] = vc.convertAssign(st, vals[i], nil, r.Type())
		}
	}
	if st.pc == "false" {
		return
	}
	vc.runDefers(st)
	fr.returns = append(fr.returns, st)
}

func (vc *VC) execDefer(st *State, x *ast.DeferStmt) {
	if vc.accum != nil && vc.loopDeferredRelease(st, x) {
		return
	}
	d := deferred{call: x.Call, st: x}
	// arguments are evaluated at defer time
	if _, ok := unparen(x.Call.Fun).(*ast.FuncLit); !ok {
		for _, a := range x.Call.Args {
			d.args = append(d.args, vc.evalAssignable(st, a))
		}
	}
	st.defers = append(st.defers, d)
}

// accumCtx: the innermost enclosing loop flagged accumulates_locks (e.g. `for _, s := range shards { s.mu.RLock(); defer
// s.mu.RUnlock() }`): its iterations may end holding a lock whose release they deferred.
type accumCtx struct {
	body     *ast.BlockStmt
	deferred map[string]string // lock heap (lockR<id>) -> reference whose release this iteration deferred
}

// loopDeferredRelease handles `defer m.RUnlock(..)` as a direct statement of an accumulating loop's body.
func (vc *VC) loopDeferredRelease(st *State, x *ast.DeferStmt) bool {
	top := false
	for _, s := range vc.accum.body.List {
		if s == ast.Stmt(x) {
			top = true
		}
	}
	se, ok := unparen(x.Call.Fun).(*ast.SelectorExpr)
	if !ok {
		return false
	}
	fn, _ := vc.info.Uses[se.Sel].(*types.Func)
	if fn == nil || fn.Name() != "RUnlock" {
		if fn != nil && fn.Name() == "Unlock" {
			panic(unsupported("deferred write-unlock inside a lock-accumulating loop"))
		}
		return false
	}
	if !top {
		panic(unsupported("deferred unlock nested inside a statement of a lock-accumulating loop"))
	}
	id, ref := vc.lockIdent(st, se.X)
	vc.evalArgs(st, x.Call)
	hr := "lockR<" + id + ">"
	if _, dup := vc.accum.deferred[hr]; dup {
		panic(unsupported("two deferred unlocks of the same lock kind in one iteration"))
	}
	r := vc.heapGet(st, hr, ArrSort(SRef, SBool))
	vc.oblige(st, "lock", "release", x.Pos(), sel(r, ref), "deferred read-unlock of "+id+" requires the read lock to be held")
	vc.accum.deferred[hr] = ref
	return true
}

func (vc *VC) runDefers(st *State) {
	ds := st.defers
	st.defers = nil
	for i := len(ds) - 1; i >= 0; i-- {
		if st.pc == "false" {
			return
		}
		d := ds[i]
		if d.loopRelease != nil {
			// the releases deferred by the iterations of a lock-accumulating loop run now: every lock the loop
			// took is released (each iteration's acquisition was paired with its deferred release:
			// lock.loopN_balanced), so the lock state is again the one before the loop - provided nothing else
			// changed it since the loop was left
			var cs []string
			for _, m := range sortedKeys(boolKeys(d.loopRelease)) {
				srt := ArrSort(SRef, SBool)
				if strings.HasPrefix(m, "any") {
					srt = SBool
				}
				if d.loopExit != nil {
					cs = append(cs, eq(vc.heapGet(st, m, srt), d.loopExit[m]))
				}
				vc.heapSet(st, m, srt, d.loopRelease[m])
			}
			if len(cs) > 0 {
				vc.oblige(st, "lock", "deferred_release", d.loopNode.Pos(), and(cs...), "locks taken after a lock-accumulating loop are released before its deferred releases run")
			}
			continue
		}
		if lit, ok := unparen(d.call.Fun).(*ast.FuncLit); ok {
			vc.runBody(st, nil, lit, lit.Type, nil, lit.Body, vc.info, nil, nil)
			continue
		}
		// re-evaluate the call with the saved argument values
		if len(d.call.Args) > 0 {
			var tmpIds []ast.Expr
			var objs []types.Object
			for j, a := range d.call.Args {
				t := vc.typeOf(a)
				o := types.NewVar(token.NoPos, vc.pkg, fmt.Sprintf("defarg$%d", j), t)
				id := ast.NewIdent(o.Name())
				vc.info.Uses[id] = o
				vc.info.Types[id] = types.TypeAndValue{Type: t}
				st.vars[o] = d.args[j]
				tmpIds = append(tmpIds, id)
				objs = append(objs, o)
			}
			nc := &ast.CallExpr{Fun: d.call.Fun, Args: tmpIds, Lparen: d.call.Lparen, Rparen: d.call.Rparen}
			if tv, ok := vc.info.Types[d.call]; ok {
				vc.info.Types[nc] = tv
			}
			vc.evalCall(st, nc)
			for _, o := range objs {
				delete(st.vars, o)
			}
			continue
		}
		vc.evalCall(st, d.call)
	}
}

func (vc *VC) execGo(st *State, x *ast.GoStmt) {
	// a spawned goroutine runs concurrently: its effects are not part of this function's VC.
	vc.spawned = append(vc.spawned, vc.prog.pos(x.Pos())+": go "+exprString(x.Call.Fun))
	if _, ok := unparen(x.Call.Fun).(*ast.FuncLit); !ok {
		vc.evalArgs(st, x.Call)
	}
}

// ---- loops ---------------------------------------------------------------------------------------------

func (vc *VC) loopOrdinal(pos token.Pos) int {
	// ordinal of the loop in source order within the enclosing top-level function declaration
	var decl *ast.FuncDecl
	if len(vc.frames) > 0 && vc.curFrame().fn != nil {
		decl = vc.curFrame().fn.Decl
	} else if vc.fn != nil {
		decl = vc.fn.Decl
	}
	if decl == nil {
		return 0
	}
	// closures inside the function share the numbering
	n, found := 0, 0
	ast.Inspect(decl, func(nd ast.Node) bool {
		switch nd.(type) {
		case *ast.ForStmt, *ast.RangeStmt:
			n++
			if nd.Pos() == pos {
				found = n
			}
		}
		return true
	})
	return found
}

func (vc *VC) loopSpec(pos token.Pos) (*SpecInfo, *FuncInfo, int) {
	var fi *FuncInfo
	if len(vc.frames) > 0 && vc.curFrame().fn != nil {
		fi = vc.curFrame().fn
	} else {
		// closures: find enclosing declared function
		for i := len(vc.frames) - 1; i >= 0; i-- {
			if vc.frames[i].fn != nil {
				fi = vc.frames[i].fn
				break
			}
		}
		if fi == nil {
			fi = vc.fn
		}
	}
	if fi == nil {
		return nil, nil, 0
	}
	n := 0
	found := 0
	ast.Inspect(fi.Decl, func(nd ast.Node) bool {
		switch nd.(type) {
		case *ast.ForStmt, *ast.RangeStmt:
			n++
			if nd.Pos() == pos {
				found = n
			}
		}
		return true
	})
	return fi.Loops[found], fi, found
}

// assignedVars collects local variables assigned anywhere inside a node.
func (vc *VC) assignedVars(n ast.Node) []types.Object {
	set := map[types.Object]bool{}
	add := func(e ast.Expr) {
		for {
			switch x := e.(type) {
			case *ast.Ident:
				if o := vc.info.ObjectOf(x); o != nil {
					if v, ok := o.(*types.Var); ok && (v.Pkg() == nil || v.Parent() != v.Pkg().Scope()) {
						set[o] = true
					}
				}
				return
			case *ast.SelectorExpr:
				// field of a struct-valued local
				if _, ok := vc.info.Selections[x]; !ok {
					return
				}
				if t := vc.info.TypeOf(x.X); t != nil {
					if _, isPtr := t.Underlying().(*types.Pointer); isPtr {
						return
					}
				}
				e = x.X
			case *ast.ParenExpr:
				e = x.X
			default:
				return
			}
		}
	}
	ast.Inspect(n, func(nd ast.Node) bool {
		switch x := nd.(type) {
		case *ast.AssignStmt:
			for _, l := range x.Lhs {
				add(l)
			}
		case *ast.IncDecStmt:
			add(x.X)
		case *ast.RangeStmt:
			if x.Key != nil {
				add(x.Key)
			}
			if x.Value != nil {
				add(x.Value)
			}
		case *ast.UnaryExpr:
			if x.Op == token.AND {
				add(x.X)
			}
		}
		return true
	})
	var out []types.Object
	for o := range set {
		out = append(out, o)
	}
	sort.Slice(out, func(i, j int) bool { return out[i].Pos() < out[j].Pos() })
	return out
}

// dryRun executes f on a clone of st with obligations suppressed and reports the heap arrays written.
func (vc *VC) dryRun(st *State, f func(s *State)) []string {
	saveTrace, saveObls := len(vc.trace), len(vc.obls)
	saveWritten := vc.written
	saveCounts := map[string]int{}
	for k, v := range vc.counts {
		saveCounts[k] = v
	}
	saveBlocking, saveSpawned := len(vc.blocking), len(vc.spawned)
	vc.written = map[string]bool{}
	fr := vc.curFrame()
	saveRet := len(fr.returns)
	saveBr, saveCt := fr.breaks, fr.conts
	fr.breaks, fr.conts = map[string][]*State{}, map[string][]*State{}
	vc.dry++
	func() {
		defer func() {
			vc.dry--
		}()
		f(st.clone())
	}()
	w := sortedKeys(vc.written)
	vc.written = saveWritten
	vc.trace = vc.trace[:saveTrace]
	vc.labels = vc.labels[:saveTrace]
	vc.obls = vc.obls[:saveObls]
	vc.counts = saveCounts
	vc.blocking = vc.blocking[:saveBlocking]
	vc.spawned = vc.spawned[:saveSpawned]
	fr.returns = fr.returns[:saveRet]
	fr.breaks, fr.conts = saveBr, saveCt
	return w
}

type loopCtx struct {
	spec   *SpecInfo
	fi     *FuncInfo
	ord    int
	pos    token.Pos
	label  string
	preSt  *State // state before the loop (for old() of loop-entry values via "pre")
}

func (vc *VC) loopTag(fi *FuncInfo, ord int) string { return fmt.Sprintf("loop%d", ord) }

// bindLoopSpec binds the loop spec's parameters by name to variables in scope.
func (vc *VC) bindLoopSpec(st *State, si *SpecInfo, fi *FuncInfo, pos token.Pos) *specBinding {
	b := &specBinding{old: map[types.Object]Val{}}
	r, ps, _ := specParamObjs(si)
	set := func(o types.Object, v Val) {
		if old, ok := vc.bound[o]; ok {
			b.old[o] = old
		}
		vc.bound[o] = v
		b.objs = append(b.objs, o)
	}
	info := fi.Pkg.TypesInfo
	if r != nil && fi.Decl.Recv != nil && len(fi.Decl.Recv.List[0].Names) > 0 {
		ro := info.ObjectOf(fi.Decl.Recv.List[0].Names[0])
		if v, ok := st.vars[ro]; ok {
			set(r, v)
		}
	}
	scope := fi.Pkg.Types.Scope().Innermost(pos)
	for _, p := range ps {
		var found types.Object
		if p.Name() == "idx_" {
			// the hidden index of the innermost enclosing range-over-slice loop
			for o := range st.vars {
				if o.Name() == "range$idx" && o.Pos() < pos && (found == nil || o.Pos() > found.Pos()) {
					found = o
				}
			}
			if found != nil {
				set(p, st.vars[found])
				continue
			}
		}
		if scope != nil {
			_, found = scope.LookupParent(p.Name(), pos)
		}
		if found == nil {
			panic(unsupported("loop spec %s: no variable named %s in scope", si.Decl.Name.Name, p.Name()))
		}
		v, ok := st.vars[found]
		if !ok && isRangeVarOf(fi, found, pos) {
			// the loop's own range variable, not assigned yet at the loop head: an arbitrary value (invariants
			// are then proved for every value, iteration postconditions see the iteration's value)
			v, ok = vc.freshVal(found.Type(), "unset."+p.Name()), true
		}
		if !ok {
			panic(unsupported("loop spec %s: variable %s has no value at the loop head", si.Decl.Name.Name, p.Name()))
		}
		set(p, v)
		// old(p) in a loop contract: the value the function was entered with (parameters only)
		if vc.entry != nil {
			if ev, ok := vc.entry.vars[found]; ok {
				if vc.loopOld == nil {
					vc.loopOld = map[types.Object]Val{}
				}
				vc.loopOld[p] = ev
			}
		}
	}
	return b
}

func (vc *VC) checkInvariants(st *State, lc *loopCtx, kind string, entry *State) {
	if lc.spec == nil {
		return
	}
	b := vc.bindLoopSpec(st, lc.spec, lc.fi, lc.pos)
	for _, c := range lc.spec.Clauses {
		if c.Kind == "invariant" {
			t := vc.evalClause(st, lc.spec, c.Expr, entry)
			vc.oblige(st, kind, fmt.Sprintf("loop%d.%s", lc.ord, c.Name), c.Pos, t, "loop invariant "+c.Name)
		}
	}
	vc.unbind(b)
}

// checkIterPosts: `ensures` clauses of a loop spec are iteration postconditions: checked at the end of every
// iteration (normal end and continue), over the iteration's own values of the loop variables; never assumed.
func (vc *VC) checkIterPosts(st *State, lc *loopCtx, entry *State) {
	if lc.spec == nil {
		return
	}
	any := false
	for _, c := range lc.spec.Clauses {
		if c.Kind == "ensures" {
			any = true
		}
	}
	if !any {
		return
	}
	b := vc.bindLoopSpec(st, lc.spec, lc.fi, lc.pos)
	for _, c := range lc.spec.Clauses {
		if c.Kind == "ensures" {
			t := vc.evalClause(st, lc.spec, c.Expr, entry)
			vc.oblige(st, "iter", fmt.Sprintf("loop%d.%s", lc.ord, c.Name), c.Pos, t, "iteration postcondition "+c.Name)
		}
	}
	vc.unbind(b)
}

func (vc *VC) assumeInvariants(st *State, lc *loopCtx, entry *State) {
	if lc.spec == nil {
		return
	}
	b := vc.bindLoopSpec(st, lc.spec, lc.fi, lc.pos)
	for _, c := range lc.spec.Clauses {
		if c.Kind == "invariant" {
			vc.curLabel = fmt.Sprintf("inv.loop%d.%s", lc.ord, c.Name)
			vc.assume(st, vc.evalClause(st, lc.spec, c.Expr, entry))
			vc.curLabel = ""
		}
	}
	vc.unbind(b)
}

func (vc *VC) variant(st *State, lc *loopCtx, entry *State) []*Scalar {
	if lc.spec == nil {
		return nil
	}
	var out []*Scalar
	b := vc.bindLoopSpec(st, lc.spec, lc.fi, lc.pos)
	saveInfo, saveMode, saveOld := vc.info, vc.specMode, vc.oldState
	vc.info, vc.specMode, vc.oldState = lc.spec.Pkg.TypesInfo, true, entry
	for _, c := range lc.spec.Clauses {
		if c.Kind == "decreases" {
			for _, a := range c.Args {
				s := vc.evalScalar(st, a)
				out = append(out, sc(vc.define("variant", s.S, s.T), s.S))
			}
		}
	}
	vc.info, vc.specMode, vc.oldState = saveInfo, saveMode, saveOld
	vc.unbind(b)
	return out
}

// entryState for old() inside loop specs: the function-entry state.
func (vc *VC) fnEntry() *State { return vc.entry }

// execLoop is the common loop rule. cond==nil means `for {}`.
// bodyFn executes one iteration body (+post) on the given state and returns the end-of-iteration state.
func (vc *VC) execLoop(st *State, node ast.Node, label string, assigned []types.Object,
	condFn func(s *State) string, bodyFn func(s *State) *State, afterHavoc func(s *State)) *State {
	spec, fi, ord := vc.loopSpec(node.Pos())
	lc := &loopCtx{spec: spec, fi: fi, ord: ord, pos: loopBodyPos(node), label: label}
	entry := vc.fnEntry()
	fr := vc.curFrame()

	// 1. invariant holds on entry
	vc.checkInvariants(st, lc, "inv.init", entry)

	// 2. what does the loop modify?
	mods := vc.dryRun(st, func(s *State) {
		c := "true"
		if condFn != nil {
			c = condFn(s)
		}
		s.pc = vc.newPC(and(s.pc, c))
		bodyFn(s)
	})
	// 3. havoc
	for _, o := range assigned {
		if cur, ok := st.vars[o]; ok {
			st.vars[o] = vc.havocVal(cur, o.Type(), o.Name())
		}
	}
	lockPre := map[string]string{}
	accum := spec != nil && spec.Flags["accumulates_locks"]
	var accumHeaps []string
	if accum {
		rel := map[string]string{}
		for _, m := range mods {
			if isLockHeap(m) {
				srt := ArrSort(SRef, SBool)
				if strings.HasPrefix(m, "any") {
					srt = SBool
				}
				rel[m] = vc.heapGet(st, m, srt)
				accumHeaps = append(accumHeaps, m)
			}
		}
		st.defers = append(append([]deferred{}, st.defers...), deferred{loopRelease: rel, loopNode: node})
	}
	for _, m := range mods {
		if isLockHeap(m) && !accum {
			// built-in invariant: an iteration leaves the lock state as it found it (checked below)
			srt := ArrSort(SRef, SBool)
			if strings.HasPrefix(m, "any") {
				srt = SBool
			}
			lockPre[m] = vc.heapGet(st, m, srt)
			continue
		}
		vc.havocHeap(st, m)
	}
	if afterHavoc != nil {
		afterHavoc(st)
	}
	// 4. assume invariant at an arbitrary iteration
	vc.assumeInvariants(st, lc, entry)
	v0 := vc.variant(st, lc, entry)
	for _, m := range accumHeaps {
		// lock-accumulating loop: the lock state was havocked with the other heaps (the invariant describes it);
		// the iteration is compared with its own start
		srt := ArrSort(SRef, SBool)
		if strings.HasPrefix(m, "any") {
			srt = SBool
		}
		lockPre[m] = vc.heapGet(st, m, srt)
	}
	saveAccum := vc.accum
	if accum {
		vc.accum = &accumCtx{body: loopBody(node), deferred: map[string]string{}}
	} else {
		vc.accum = nil // a nested ordinary loop is not accumulating
	}

	// 5. condition
	c := "true"
	if condFn != nil {
		c = vc.newPC(condFn(st))
	}
	exit := st.clone()
	exit.pc = vc.newPC(and(st.pc, not(c)))
	body := st.clone()
	body.pc = vc.newPC(and(st.pc, c))

	saveB, saveC := fr.breaks[""], fr.conts[""]
	var saveBL, saveCL []*State
	fr.breaks[""], fr.conts[""] = nil, nil
	if label != "" {
		saveBL, saveCL = fr.breaks[label], fr.conts[label]
		fr.breaks[label], fr.conts[label] = nil, nil
	}
	end := bodyFn(body)
	curAccum := vc.accum
	vc.accum = saveAccum
	if end != nil {
		// 6. invariant preserved, variant decreases
		vc.checkInvariants(end, lc, "inv.keep", entry)
		vc.checkIterPosts(end, lc, entry)
		if len(lockPre) > 0 {
			var cs []string
			for _, m := range sortedKeys(boolKeys(lockPre)) {
				srt := ArrSort(SRef, SBool)
				if strings.HasPrefix(m, "any") {
					srt = SBool
				}
				want := lockPre[m]
				if curAccum != nil {
					if ref, ok := curAccum.deferred[m]; ok {
						want = store(want, ref, "true") // taken in this iteration, release deferred
					} else if strings.HasPrefix(m, "anyR<") {
						if _, ok := curAccum.deferred["lockR<"+strings.TrimPrefix(m, "anyR<")]; ok {
							continue
						}
					}
				}
				cs = append(cs, eq(vc.heapGet(end, m, srt), want))
			}
			vc.oblige(end, "lock", fmt.Sprintf("loop%d_balanced", lc.ord), node.Pos(), and(cs...), "each loop iteration releases the locks it takes")
		}
		if len(v0) > 0 {
			v1 := vc.variant(end, lc, entry)
			vc.oblige(end, "decreases", fmt.Sprintf("loop%d", lc.ord), node.Pos(), lexLess(v1, v0), "loop variant decreases and is bounded below")
		}
	}
	breaks := append([]*State{}, fr.breaks[""]...)
	if label != "" {
		breaks = append(breaks, fr.breaks[label]...)
		fr.breaks[label], fr.conts[label] = saveBL, saveCL
	}
	fr.breaks[""], fr.conts[""] = saveB, saveC
	out := vc.merge(append([]*State{exit}, breaks...))
	if accum && out != nil {
		ds := append([]deferred{}, out.defers...)
		for i := len(ds) - 1; i >= 0; i-- {
			if ds[i].loopRelease != nil && ds[i].loopNode == node {
				ex := map[string]string{}
				for m := range ds[i].loopRelease {
					srt := ArrSort(SRef, SBool)
					if strings.HasPrefix(m, "any") {
						srt = SBool
					}
					ex[m] = vc.heapGet(out, m, srt)
				}
				ds[i].loopExit = ex
				break
			}
		}
		out.defers = ds
	}
	return out
}

func loopBody(n ast.Node) *ast.BlockStmt {
	switch x := n.(type) {
	case *ast.ForStmt:
		return x.Body
	case *ast.RangeStmt:
		return x.Body
	}
	return &ast.BlockStmt{}
}


// lexLess: v1 <_lex v0 with each component bounded below by 0 (signed).
func lexLess(v1, v0 []*Scalar) string {
	var alts []string
	prefix := []string{}
	for i := range v0 {
		var lt, ge string
		if v0[i].S == SInt || v0[i].S == SReal {
			lt = sx("<", v1[i].T, v0[i].T)
			ge = sx(">=", v0[i].T, "0")
		} else {
			lt = sx("bvslt", v1[i].T, v0[i].T)
			ge = sx("bvsge", v0[i].T, bvLit(0, v0[i].S.Width()))
		}
		alts = append(alts, and(append(append([]string{}, prefix...), lt, ge)...))
		prefix = append(prefix, eq(v1[i].T, v0[i].T))
	}
	return or(alts...)
}

func (vc *VC) havocVal(cur Val, t types.Type, name string) Val {
	switch x := cur.(type) {
	case *Scalar:
		return sc(vc.declare(name, x.S), x.S)
	case *SliceV:
		return &SliceV{vc.declare(name+"#arr", SRef), vc.declare(name+"#len", BV(64))}
	case *StructV:
		n := &StructV{Names: x.Names, F: map[string]Val{}}
		for _, f := range x.Names {
			n.F[f] = vc.havocVal(x.F[f], nil, name+"."+f)
		}
		return n
	}
	return cur
}

func (vc *VC) execFor(st *State, x *ast.ForStmt, label string) *State {
	if x.Init != nil {
		st = vc.exec(st, x.Init, "")
	}
	assigned := vc.assignedVars(x.Body)
	if x.Post != nil {
		assigned = append(assigned, vc.assignedVars(x.Post)...)
	}
	var condFn func(s *State) string
	if x.Cond != nil {
		condFn = func(s *State) string { return vc.evalBool(s, x.Cond) }
	}
	bodyFn := func(s *State) *State {
		fr := vc.curFrame()
		end := vc.execBlock(s, x.Body.List)
		conts := append([]*State{end}, fr.conts[""]...)
		if label != "" {
			conts = append(conts, fr.conts[label]...)
			fr.conts[label] = nil
		}
		fr.conts[""] = nil
		end = vc.merge(conts)
		if end != nil && x.Post != nil {
			end = vc.exec(end, x.Post, "")
		}
		return end
	}
	return vc.execLoop(st, x, label, assigned, condFn, bodyFn, vc.countingLoopFact(st, x))
}

// countingLoopFact: for `for i := c; i < e; i++ { body not assigning i }` the fact i >= c is a
// built-in invariant (i only steps up by one from c, and i < e rules out wrap-around).
func (vc *VC) countingLoopFact(st *State, x *ast.ForStmt) func(s *State) {
	as, ok := x.Init.(*ast.AssignStmt)
	if !ok || as.Tok != token.DEFINE || len(as.Lhs) != 1 || len(as.Rhs) != 1 {
		return nil
	}
	id, ok := as.Lhs[0].(*ast.Ident)
	if !ok {
		return nil
	}
	obj := vc.info.ObjectOf(id)
	inc, ok := x.Post.(*ast.IncDecStmt)
	if !ok || inc.Tok != token.INC {
		return nil
	}
	if pid, ok := inc.X.(*ast.Ident); !ok || vc.info.ObjectOf(pid) != obj {
		return nil
	}
	be, ok := x.Cond.(*ast.BinaryExpr)
	if !ok || be.Op != token.LSS {
		return nil
	}
	if cid, ok := be.X.(*ast.Ident); !ok || vc.info.ObjectOf(cid) != obj {
		return nil
	}
	for _, o := range vc.assignedVars(x.Body) {
		if o == obj {
			return nil
		}
	}
	init, ok := st.vars[obj].(*Scalar)
	if !ok || !init.S.IsBV() {
		return nil
	}
	signed := signedType(obj.Type())
	return func(s *State) {
		cur := s.vars[obj].(*Scalar)
		if signed {
			vc.assume(s, sx("bvsge", cur.T, init.T))
		} else {
			vc.assume(s, sx("bvuge", cur.T, init.T))
		}
	}
}

func (vc *VC) execRange(st *State, x *ast.RangeStmt, label string) *State {
	t := vc.typeOf(x.X)
	assigned := vc.assignedVars(x.Body)
	var keyObj, valObj types.Object
	if id, ok := x.Key.(*ast.Ident); ok && id.Name != "_" {
		keyObj = vc.info.ObjectOf(id)
	}
	if x.Value != nil {
		if id, ok := x.Value.(*ast.Ident); ok && id.Name != "_" {
			valObj = vc.info.ObjectOf(id)
		}
	}
	switch u := t.Underlying().(type) {
	case *types.Slice:
		sv := vc.eval(st, x.X).(*SliceV) // evaluated once
		// hidden index
		idx := types.NewVar(x.Pos(), vc.pkg, "range$idx", types.Typ[types.Int])
		st.vars[idx] = sc(bvLit(0, 64), BV(64))
		if keyObj != nil {
			st.vars[keyObj] = sc(bvLit(0, 64), BV(64))
			assigned = append(assigned, keyObj)
		}
		if valObj != nil {
			st.vars[valObj] = vc.zeroVal(valObj.Type())
			assigned = append(assigned, valObj)
		}
		assigned = append(assigned, idx)
		condFn := func(s *State) string {
			i := s.vars[idx].(*Scalar).T
			return sx("bvslt", i, sv.Len)
		}
		first := true
		_ = first
		bodyFn := func(s *State) *State {
			i := s.vars[idx].(*Scalar).T
			// the hidden index is within [0,len): implied by invariant `0 <= idx` below
			if keyObj != nil {
				s.vars[keyObj] = sc(i, BV(64))
			}
			if valObj != nil {
				p := place{kind: pElem, arr: sv.Arr, idx: i, ekey: typeKey(u.Elem()), typ: u.Elem()}
				s.vars[valObj] = vc.loadPlace(s, p)
			}
			fr := vc.curFrame()
			end := vc.execBlock(s, x.Body.List)
			conts := append([]*State{end}, fr.conts[""]...)
			if label != "" {
				conts = append(conts, fr.conts[label]...)
				fr.conts[label] = nil
			}
			fr.conts[""] = nil
			end = vc.merge(conts)
			if end != nil {
				end.vars[idx] = sc(vc.define("range$idx", BV(64), sx("bvadd", i, bvLit(1, 64))), BV(64))
				if keyObj != nil {
					end.vars[keyObj] = end.vars[idx]
				}
			}
			return end
		}
		// built-in invariant for range loops: 0 <= idx <= len and key == idx (the hidden index only
		// ever steps by one from zero while idx < len)
		after := func(s *State) {
			i := s.vars[idx].(*Scalar).T
			vc.assume(s, and(sx("bvsle", bvLit(0, 64), i), sx("bvsle", i, sv.Len)))
			if keyObj != nil {
				s.vars[keyObj] = sc(i, BV(64))
			}
		}
		return vc.execLoop(st, x, label, assigned, condFn, bodyFn, after)
	case *types.Map:
		m := vc.evalScalar(st, x.X)
		if keyObj != nil {
			st.vars[keyObj] = vc.zeroVal(keyObj.Type())
			assigned = append(assigned, keyObj)
		}
		if valObj != nil {
			st.vars[valObj] = vc.zeroVal(valObj.Type())
			assigned = append(assigned, valObj)
		}
		more := func(s *State) string { return vc.declare("range.more", SBool) }
		bodyFn := func(s *State) *State {
			// an arbitrary key of the domain (A-MAP: each key once; order unspecified)
			dom, vl, _, ks, vs := vc.mapHeaps(u)
			k := vc.declare("range.key", ks)
			hd := vc.heapGet(s, dom, ArrSort(SRef, ArrSort(ks, SBool)))
			hv := vc.heapGet(s, vl, ArrSort(SRef, ArrSort(ks, vs)))
			vc.assume(s, sel(sel(hd, m.T), k))
			vc.mapAccessHook(s, m.T, u, false)
			if keyObj != nil {
				s.vars[keyObj] = sc(k, ks)
			}
			if valObj != nil {
				v := sel(sel(hv, m.T), k)
				s.vars[valObj] = sc(v, vs)
				if vs == SRef {
					vc.assumeAllocated(s, v)
					if vc.prog.mapValsNonNil[typeKey(u)] {
						vc.assume(s, not(eq(v, "nil")))
					}
				}
			}
			fr := vc.curFrame()
			end := vc.execBlock(s, x.Body.List)
			conts := append([]*State{end}, fr.conts[""]...)
			if label != "" {
				conts = append(conts, fr.conts[label]...)
				fr.conts[label] = nil
			}
			fr.conts[""] = nil
			return vc.merge(conts)
		}
		return vc.execLoop(st, x, label, assigned, more, bodyFn, nil)
	case *types.Chan:
		vc.eval(st, x.X)
		if keyObj != nil {
			st.vars[keyObj] = vc.zeroVal(keyObj.Type())
			assigned = append(assigned, keyObj)
		}
		more := func(s *State) string { return vc.declare("chan.more", SBool) }
		bodyFn := func(s *State) *State {
			if keyObj != nil {
				s.vars[keyObj] = vc.recvValue(s, x.X, keyObj.Type())
			}
			fr := vc.curFrame()
			end := vc.execBlock(s, x.Body.List)
			conts := append([]*State{end}, fr.conts[""]...)
			fr.conts[""] = nil
			return vc.merge(conts)
		}
		return vc.execLoop(st, x, label, assigned, more, bodyFn, nil)
	}
	panic(unsupported("range over %s", t))
}

type rangeInfo struct {
	idx, key types.Object
	len      string
}

// recvValue: value received from a channel; message invariants are attached by channel contracts.
func (vc *VC) recvValue(st *State, ch ast.Expr, t types.Type) Val {
	v := vc.freshVal(t, "recv")
	vc.chanMsgInv(st, ch, v, t)
	return v
}

func (vc *VC) execSelect(st *State, x *ast.SelectStmt, label string) *State {
	// nondeterministic choice among the communication clauses
	fr := vc.curFrame()
	saveB := fr.breaks[""]
	fr.breaks[""] = nil
	var ends []*State
	vc.inSelect++
	hasDefault := false
	for _, cs := range x.Body.List {
		if cs.(*ast.CommClause).Comm == nil {
			hasDefault = true
		}
	}
	_ = hasDefault
	for _, cs := range x.Body.List {
		cc := cs.(*ast.CommClause)
		b := st.clone()
		b.pc = vc.newPC(and(st.pc, vc.declare("select.choice", SBool)))
		if cc.Comm != nil {
			b = vc.exec(b, cc.Comm, "")
		} else if gf := vc.prog.ghostByName(vc.pkg, "gh_selectDefault"); gf != nil {
			// ghost: this goroutine took the default branch of a select (its channel operations could not proceed)
			name, _, _, hs := vc.ghostHeap(gf)
			vc.heapSet(b, name, hs, fmt.Sprintf("(+ %s 1.0)", vc.heapGet(b, name, hs)))
		}
		vc.inSelect--
		if b != nil {
			ends = append(ends, vc.execBlock(b, cc.Body))
		}
		vc.inSelect++
	}
	vc.inSelect--
	ends = append(ends, fr.breaks[""]...)
	fr.breaks[""] = saveB
	return vc.merge(ends)
}

func loopBodyPos(n ast.Node) token.Pos {
	switch x := n.(type) {
	case *ast.ForStmt:
		return x.Body.Lbrace + 1
	case *ast.RangeStmt:
		return x.Body.Lbrace + 1
	}
	return n.Pos()
}

func boolKeys(m map[string]string) map[string]bool {
	o := map[string]bool{}
	for k := range m {
		o[k] = true
	}
	return o
}

// isRangeVarOf: o is declared by the range statement whose body starts at pos.
func isRangeVarOf(fi *FuncInfo, o types.Object, pos token.Pos) bool {
	found := false
	ast.Inspect(fi.Decl, func(n ast.Node) bool {
		if r, ok := n.(*ast.RangeStmt); ok && loopBodyPos(r) == pos {
			for _, e := range []ast.Expr{r.Key, r.Value} {
				if id, ok := e.(*ast.Ident); ok && fi.Pkg.TypesInfo.Defs[id] == o {
					found = true
				}
			}
		}
		return true
	})
	return found
}
