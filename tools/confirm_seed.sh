#!/bin/bash
# usage: confirm_seed.sh <worktree> <seed-dir> <out-log>
# Confirms, in the scratch worktree, that the patch compiles, keeps the existing suite green,
# and that the demonstration fails with the patch and passes without it.
export GOFLAGS=-mod=mod GOPROXY=off GOSUMDB=off GOTOOLCHAIN=local
WT="$1"; SD="$2"; LOG="$3"
exec > "$LOG" 2>&1
cd "$WT" || exit 2
git checkout -q -- . ; git clean -fdq -e OUT
place=$(head -1 "$SD/demo_test.go" | sed -n 's#.*place in: *\([^ ]*\).*#\1#p'); place=${place:-internal/}
place=${place%/}; [ "$place" = "." ] || [ -d "$place" ] || place=internal
demo="$place/zz_seed_demo_test.go"
echo "== demo WITHOUT patch (must pass)"
cp "$SD/demo_test.go" "$demo"
go test -vet=off -count=1 -timeout 10m -run "$(grep -o 'func Test[A-Za-z0-9_]*' "$SD/demo_test.go" | sed 's/func //' | paste -sd'|')" ./$place/ ; echo "exit_without=$?"
echo "== apply patch"
git apply "$SD/patch.diff" || { echo "APPLY FAILED"; exit 1; }
echo "== demo WITH patch (must fail)"
go test -vet=off -count=1 -timeout 10m -run "$(grep -o 'func Test[A-Za-z0-9_]*' "$SD/demo_test.go" | sed 's/func //' | paste -sd'|')" ./$place/ ; echo "exit_with=$?"
rm -f "$demo"
echo "== existing suite WITH patch (must pass)"
go build ./... && go test -vet=off -count=1 -timeout 25m ./... 2>&1 | tail -15; echo "exit_suite=${PIPESTATUS[0]}"
git checkout -q -- . ; git clean -fdq -e OUT
