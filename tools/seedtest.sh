#!/bin/bash
# usage: seedtest.sh <prop> <patch.diff>   - runs ./check <prop> against a scratch worktree of /repo HEAD with the patch applied
PROP="$1"; PATCH="$2"
WT=/tmp/wt_seedtest_$$
OUT=/tmp/seedtest_out_$$
cd /repo && git worktree remove --force $WT 2>/dev/null; git worktree add -f $WT HEAD --detach -q || exit 2
mkdir -p $OUT && cp /verif/props.json /verif/obligations.lock /verif/known_findings.json $OUT/
cd $WT && git apply "$PATCH" || { echo "APPLY FAILED"; exit 2; }
cd /verif && VERIF_REPO=$WT VERIF_OUT=$OUT ./check $PROP --tier quick 2>&1 | grep -v "^KNOWN" | tail -6
cd /repo && git worktree remove --force $WT; rm -rf $OUT
