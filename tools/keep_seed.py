#!/usr/bin/env python3
# usage: keep_seed.py <prop> <name> <srcdir> "<needs>" "<detected by>"
import sys, os, shutil, json, re
prop, name, src, needs, detected = sys.argv[1:6]
dst = f"/verif/seeded/{name}"
os.makedirs(dst, exist_ok=True)
shutil.copy(f"{src}/patch.diff", f"{dst}/patch.diff")
shutil.copy(f"{src}/demo_test.go", f"{dst}/demo_test.go")
if os.path.exists(f"{src}/notes.md"): shutil.copy(f"{src}/notes.md", f"{dst}/notes.md")
log = open(f"{src}/confirm.log").read() if os.path.exists(f"{src}/confirm.log") else ""
meta = {"property": prop, "needs_to_manifest": needs, "origin": "independent sub-agent given only the property text and a scratch worktree of the original snapshot",
        "confirmed": {"demo_passes_without_patch": "exit_without=0" in log, "demo_fails_with_patch": "exit_with=1" in log,
                      "suite_with_patch": [l for l in log.splitlines() if l.startswith(("ok ", "FAIL", "--- FAIL"))][-8:],
                      "command": "tools/confirm_seed.sh <scratch worktree of snapshot 2ce395b> <seed dir> <log>"},
        "detected_by": detected}
json.dump(meta, open(f"{dst}/meta.json", "w"), indent=1)
print("kept", dst)
