#!/usr/bin/env python3
"""thorough tier: replay the listed findings of a property against the real code (/repo working tree).
Each finding has a deterministic white-box test under /verif/findings; it is injected with `go test -overlay`
(nothing is written into /repo). An OPEN finding is expected to fail its test (the defect is still there);
a FIXED finding is expected to pass, and if it fails again the defect has returned: that is a violation."""
import json, os, re, subprocess, sys, glob, tempfile
prop = sys.argv[1]
repo = os.environ.get("VERIF_REPO", "/repo")
verif = os.path.dirname(os.path.dirname(os.path.abspath(__file__)))
env = dict(os.environ, GOFLAGS="-mod=mod", GOPROXY="off", GOSUMDB="off", GOTOOLCHAIN="local")
kfs = [k for k in json.load(open(f"{verif}/known_findings.json")) if k["property"] == prop]
seen, rc = set(), 0
os.makedirs(f"{verif}/replays/{prop}", exist_ok=True)
for k in kfs:
    m = re.match(r"F(\d+)", k["id"])
    if not m or m.group(1) in seen:
        continue
    seen.add(m.group(1))
    n = int(m.group(1))
    files = glob.glob(f"{verif}/findings/f{n:02d}_*_test.go") + glob.glob(f"{verif}/findings/f{n}_*_test.go")
    if not files:
        print(f"finding F{n}: no reproduction test under findings/"); continue
    src = open(files[0]).read()
    place = re.search(r"place in:\s*(\S+)", src.splitlines()[0]).group(1).rstrip("/") or "."
    tests = "|".join(re.findall(r"func (TestFinding_\w+)", src))
    with tempfile.TemporaryDirectory() as td:
        ov = os.path.join(td, "ov.json")
        json.dump({"Replace": {os.path.join(repo, place, "zz_finding_test.go"): files[0]}}, open(ov, "w"))
        r = subprocess.run(["go", "test", "-overlay", ov, "-vet=off", "-count=1", "-timeout", "180s", "-run", tests, "./" + place + "/"],
                           cwd=repo, env=env, capture_output=True, text=True)
    failed = r.returncode != 0
    log = f"{verif}/replays/{prop}/finding_F{n}.log"
    open(log, "w").write(r.stdout + r.stderr)
    if k.get("status") == "fixed":
        if failed:
            print(f"VIOLATION property={prop} replay={log} finding=F{n} (fixed by {k.get('commit')}) fails again on the real code")
            rc = 1
        else:
            print(f"finding F{n} (fixed, {k.get('commit')}): regression test passes on the real code")
    else:
        if failed:
            first = next((l.strip() for l in r.stdout.splitlines() if "_test.go:" in l), "")
            print(f"finding F{n} (open): reproduced on the real code: {first[:160]}")
        else:
            print(f"NOTE finding F{n} (open) no longer reproduces on the real code (test passed): consider marking it fixed")
sys.exit(rc)
